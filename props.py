import engines
"""Table of properties: which runner, which build flavour, how many shards, claimed level, assumptions."""
COMMON_ASSUME = [
    "receive buffer is exactly MTU bytes, MTU in [576, 9216] (what the daemons allocate)",
    "port getters write at most dst_len bytes; icon/friendly-name buffers are handed over with ownership (as os/darwin/lltd_port.c does)",
    "monotonic clock is non-decreasing and > 0",
    "core translation units compiled from the working tree without -DLLTD_TESTING; lltdBlock.c is textually included by port/core_block_tu.c to append a reset accessor",
]
PROPS = {
    "C01": dict(sources=["c01.cpp"], flavours=["asan"], shards={"quick": 8, "thorough": 16}, level="exploration",
                technique="structure-aware generated frame sequences (rapidcheck quick tier, libFuzzer coverage-guided thorough tier) through all three receive entry points on MTU-sized heap buffers under AddressSanitizer+UBSan, plus allocation-ledger oracle",
                assumptions=COMMON_ASSUME, post=engines.c01_fuzz_post),
    "C02": dict(sources=["c02.cpp"], flavours=["asan"], shards={"quick": 8, "thorough": 16}, level="exploration",
                technique="rapidcheck-generated frame histories; independent decoder (well-formedness), per-request transmit budget, and 0xA5/0x5A fresh-memory differential as oracles",
                assumptions=COMMON_ASSUME),
    "C05": dict(sources=["c05.cpp"], flavours=["asan"], shards={"quick": 8, "thorough": 16}, level="exploration",
                technique="exhaustive (ToS, opcode) x state single-step sweep plus rapidcheck histories, both judged by a non-deterministic 'possible mappers' reference model",
                assumptions=COMMON_ASSUME + ["commands (Emit/Query/QueryLargeTlv) are issued only by the active mapper or while none is active (the statement's domain restriction)"]),
    "C06": dict(sources=["c06.cpp"], flavours=["asan"], shards={"quick": 8, "thorough": 16}, level="exploration",
                technique="generated Emits (full sweep over n, random descriptor lists inside histories, over-declared counts) checked against the exact expected sleep/send port-call trace",
                assumptions=COMMON_ASSUME),
    "C03": dict(sources=["c03.cpp"], flavours=["asan"], shards={"quick": 4, "thorough": 16}, level="exploration",
                technique="rapidcheck-generated frame histories; independent byte-level decoder as oracle; C05 reference model decides which Discovers must be accepted",
                assumptions=COMMON_ASSUME),
}
