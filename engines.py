"""Property-specific engines that do not fit the generic 'rapidcheck runner in shards' mould."""
import glob, hashlib, json, os, re, shutil, subprocess, time


def c01_fuzz_post(pid, tier, seed, ctx):
    """thorough tier of C01: coverage-guided libFuzzer campaign on the structure-aware target"""
    H = ctx["helpers"]
    V, B, rundir = ctx["V"], ctx["B"], ctx["rundir"]
    secs = int(os.environ.get("C01_FUZZ_SECONDS", "20" if tier == "quick" else "300"))
    njobs = int(os.environ.get("C01_FUZZ_JOBS", "4" if tier == "quick" else str(H.NCPU)))
    if secs <= 0:
        return [], {}, []
    objs, err = H.build_core("fuzz")
    if err:
        return [], {}, [("fuzz", 0, "core does not compile for the fuzz flavour:\n" + err, os.devnull)]
    exe = os.path.join(B, "bin", "C01-fuzz")
    tobj, e1 = H.build_harness_obj(os.path.join(V, "fuzz", "target.cpp"), "fuzz")
    vobj, e2 = H.build_harness_obj(os.path.join(V, "port", "vport.cpp"), "fuzz")
    if e1 or e2:
        return [], {}, [("fuzz", 0, "fuzz target does not compile:\n" + (e1 or e2), os.devnull)]
    r = H.sh([H.CXX, "-fsanitize=fuzzer,address,undefined", "-o", exe, tobj, vobj, *objs])
    if r.returncode:
        return [], {}, [("fuzz", 0, "fuzz target does not link:\n" + r.stdout, os.devnull)]
    fdir = os.path.join(rundir, "fuzz")
    os.makedirs(fdir, exist_ok=True)
    seeds = os.path.join(V, "fuzz", "seeds")
    procs = []
    env = H.run_env()
    env["C01_STATS"] = os.path.join(fdir, "stats")
    env["C01_FAILING"] = os.path.join(fdir, "failing")
    for i in range(njobs):
        corpus = os.path.join(fdir, "corpus%d" % i)
        os.makedirs(corpus, exist_ok=True)
        art = os.path.join(fdir, "art%d-" % i)
        cmd = [exe, "-seed=%d" % (seed * 100 + i + 1), "-max_total_time=%d" % secs, "-max_len=4096", "-timeout=30",
               "-rss_limit_mb=3000", "-artifact_prefix=" + art, "-print_final_stats=1", corpus]
        if i % 2 == 0 and os.path.isdir(seeds):   # half the jobs start from the seed corpus, half from nothing
            cmd.append(seeds)
        log = open(os.path.join(fdir, "job%d.log" % i), "w")
        procs.append(subprocess.Popen(cmd, stdout=log, stderr=subprocess.STDOUT, env=env))
    for pr in procs:
        try:
            pr.wait(timeout=secs + 300)
        except subprocess.TimeoutExpired:
            pr.kill()
    execs = nontriv = distinct = deep = 0
    for f in glob.glob(os.path.join(fdir, "stats.*.json")):
        try:
            j = json.load(open(f))
            execs += j["execs"]; nontriv += j["nontrivial"]; distinct += j["distinct_nontrivial"]; deep += j["deep_frames"]
        except Exception:
            pass
    cov_edges = 0
    for f in glob.glob(os.path.join(fdir, "job*.log")):
        m = re.findall(r"cov: (\d+)", open(f, errors="replace").read())
        if m:
            cov_edges = max(cov_edges, int(m[-1]))
    noise = len(glob.glob(os.path.join(fdir, "art*-timeout-*")) + glob.glob(os.path.join(fdir, "art*-oom-*")) + glob.glob(os.path.join(fdir, "art*-slow-unit-*")))
    violations, herr = [], []
    arts = sorted(glob.glob(os.path.join(fdir, "art*-crash-*")) + glob.glob(os.path.join(fdir, "art*-leak-*")))
    seen = set()
    for a in arts[:20]:
        case = a + ".case"
        e2 = dict(env); e2["C01_CASE_OUT"] = case
        subprocess.run([exe, a], stdout=subprocess.DEVNULL, stderr=subprocess.DEVNULL, env=e2, timeout=120)
        if not os.path.exists(case):
            herr.append(("fuzz", 0, "artifact %s could not be converted into a case" % a, os.devnull))
            continue
        runner = ctx["exes"]["asan"]
        H.minimise(runner, case, budget_s=60)
        res = [H.replay_once(runner, case) for _ in range(3)]
        if all(r[0] not in (0, 2) for r in res):
            why = [re.sub(r"^==\d+==", "", l).strip() for l in res[0][2].splitlines() if "REPLAY-FAIL" in l or "SUMMARY:" in l or "runtime error" in l][:3]
            if tuple(why) in seen:
                continue
            seen.add(tuple(why))
            h = hashlib.sha1(open(case, "rb").read()).hexdigest()[:10]
            dst = os.path.join(H.OUT, "replays", pid, "found-fuzz-%s.case" % h)
            os.makedirs(os.path.dirname(dst), exist_ok=True)
            open(dst, "w").write("".join("# %s\n" % w for w in why) + open(case).read())
            violations.append((dst, why))
        else:
            herr.append(("fuzz", 0, "libFuzzer artifact %s does not reproduce in the replay runner (%s)" % (a, [r[0] for r in res]), os.devnull))
    cov = {"libfuzzer": {"jobs": njobs, "seconds_per_job": secs, "executions": execs, "nontrivial_executions": nontriv,
                         "distinct_nontrivial_sum_over_jobs": distinct, "deep_handler_frames": deep, "coverage_edges_max": cov_edges,
                         "load_noise_artifacts_ignored": noise, "crash_artifacts": len(arts)}}
    return violations, cov, herr
