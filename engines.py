"""Property-specific engines that do not fit the generic 'rapidcheck runner in shards' mould."""
import glob, hashlib, json, os, re, shutil, subprocess, tempfile, time


def c01_fuzz_post(pid, tier, seed, ctx):
    """thorough tier of C01: coverage-guided libFuzzer campaign on the structure-aware target"""
    H = ctx["helpers"]
    V, B, rundir = ctx["V"], ctx["B"], ctx["rundir"]
    secs = int(os.environ.get("C01_FUZZ_SECONDS", "12" if tier == "quick" else "420"))
    njobs = int(os.environ.get("C01_FUZZ_JOBS", "8" if tier == "quick" else str(H.NCPU)))
    if secs <= 0:
        return [], {}, []
    objs, err = H.build_core("fuzz")
    if err:
        return [], {}, [("fuzz", 0, "core does not compile for the fuzz flavour:\n" + err, os.devnull)]
    exe = os.path.join(B, "bin", "C01-fuzz")
    tobj, e1 = H.build_harness_obj(os.path.join(V, "fuzz", "target.cpp"), "fuzz")
    vobj, e2 = H.build_harness_obj(os.path.join(V, "port", "vport.cpp"), "fuzz")
    if e1 or e2:
        return [], {}, [("fuzz", 0, "fuzz target does not compile:\n" + (e1 or e2), os.devnull)]
    r = H.sh([H.CXX, "-fsanitize=fuzzer,address,undefined", "-o", exe, tobj, vobj, *objs])
    if r.returncode:
        return [], {}, [("fuzz", 0, "fuzz target does not link:\n" + r.stdout, os.devnull)]
    fdir = os.path.join(rundir, "fuzz")
    os.makedirs(fdir, exist_ok=True)
    seeds = os.path.join(V, "fuzz", "seeds")
    procs = []
    env = H.run_env()
    env["C01_STATS"] = os.path.join(fdir, "stats")
    env["C01_FAILING"] = os.path.join(fdir, "failing")
    for i in range(njobs):
        corpus = os.path.join(fdir, "corpus%d" % i)
        os.makedirs(corpus, exist_ok=True)
        art = os.path.join(fdir, "art%d-" % i)
        cmd = [exe, "-seed=%d" % (seed * 100 + i + 1), "-max_total_time=%d" % secs, "-max_len=4096", "-timeout=30",
               "-rss_limit_mb=3000", "-artifact_prefix=" + art, "-print_final_stats=1", corpus]
        if i % 2 == 0 and os.path.isdir(seeds):   # half the jobs start from the seed corpus, half from nothing
            cmd.append(seeds)
        log = open(os.path.join(fdir, "job%d.log" % i), "w")
        procs.append(subprocess.Popen(cmd, stdout=log, stderr=subprocess.STDOUT, env=env))
    for pr in procs:
        try:
            pr.wait(timeout=secs + 300)
        except subprocess.TimeoutExpired:
            pr.kill()
    execs = nontriv = distinct = deep = 0
    for f in glob.glob(os.path.join(fdir, "stats.*.json")):
        try:
            j = json.load(open(f))
            execs += j["execs"]; nontriv += j["nontrivial"]; distinct += j["distinct_nontrivial"]; deep += j["deep_frames"]
        except Exception:
            pass
    cov_edges = 0
    for f in glob.glob(os.path.join(fdir, "job*.log")):
        m = re.findall(r"cov: (\d+)", open(f, errors="replace").read())
        if m:
            cov_edges = max(cov_edges, int(m[-1]))
    noise = len(glob.glob(os.path.join(fdir, "art*-timeout-*")) + glob.glob(os.path.join(fdir, "art*-oom-*")) + glob.glob(os.path.join(fdir, "art*-slow-unit-*")))
    violations, herr = [], []
    arts = sorted(glob.glob(os.path.join(fdir, "art*-crash-*")) + glob.glob(os.path.join(fdir, "art*-leak-*")))
    seen = set()
    for a in arts[:20]:
        case = a + ".case"
        e2 = dict(env); e2["C01_CASE_OUT"] = case
        subprocess.run([exe, a], stdout=subprocess.DEVNULL, stderr=subprocess.DEVNULL, env=e2, timeout=120)
        if not os.path.exists(case):
            herr.append(("fuzz", 0, "artifact %s could not be converted into a case" % a, os.devnull))
            continue
        runner = ctx["exes"]["asan"]
        H.minimise(runner, case, budget_s=60)
        res = [H.replay_once(runner, case) for _ in range(3)]
        if all(r[0] not in (0, 2) for r in res):
            why = [re.sub(r"^==\d+==", "", l).strip() for l in res[0][2].splitlines() if "REPLAY-FAIL" in l or "SUMMARY:" in l or "runtime error" in l][:3]
            if tuple(why) in seen:
                continue
            seen.add(tuple(why))
            h = hashlib.sha1(open(case, "rb").read()).hexdigest()[:10]
            dst = os.path.join(H.OUT, "replays", pid, "found-fuzz-%s.case" % h)
            os.makedirs(os.path.dirname(dst), exist_ok=True)
            open(dst, "w").write("".join("# %s\n" % w for w in why) + open(case).read())
            violations.append((dst, why))
        else:
            herr.append(("fuzz", 0, "libFuzzer artifact %s does not reproduce in the replay runner (%s)" % (a, [r[0] for r in res]), os.devnull))
    cov = {"libfuzzer": {"jobs": njobs, "seconds_per_job": secs, "executions": execs, "nontrivial_executions": nontriv,
                         "distinct_nontrivial_sum_over_jobs": distinct, "deep_handler_frames": deep, "coverage_edges_max": cov_edges,
                         "load_noise_artifacts_ignored": noise, "crash_artifacts": len(arts)}}
    return violations, cov, herr


# ---------------------------------------------------------------------------------------------- C20
C20_MEM = {"memcpy", "memset", "memmove", "memcmp"}
C20_RUNTIME = re.compile(r"^(__(u?div|u?mod|mul|ashl|lshr|ashr|neg|cmp|ucmp)[sdt]i[34]$|__(u?divmod)[sdt]i4$|__stack_chk_(fail|guard)$|_GLOBAL_OFFSET_TABLE_$|__(popcount|clz|ctz|bswap|ffs)[sdt]i2$"
                         r"|__aeabi_(u?idiv(mod)?|u?ldivmod|lmul|llsl|llsr|lasr|u?lcmp|mem(cpy|move|set|clr)[48]?|u(read|write)[48])$)")   # integer helpers of libgcc / compiler-rt, ARM EABI names included
C20_CROSS = [["--target=armv6m-none-eabi"], ["--target=armv4t-none-eabi"], ["--target=thumbv7m-none-eabi"], ["--target=riscv32-unknown-elf", "-march=rv32imc", "-mabi=ilp32"]]
C20_RUNTIME_SECTIONS = (".init_array", ".fini_array", ".preinit_array", ".ctors", ".dtors")
C20_PRIVILEGED = {"syscall", "sysenter", "int", "rdtsc", "rdtscp", "rdpmc", "cpuid", "rdmsr", "wrmsr", "in", "inb", "inw", "inl", "out", "outb", "outw", "outl", "insb", "insw", "insl", "outsb", "outsw", "outsl",
                  "hlt", "cli", "sti", "rdrand", "rdseed", "xgetbv", "lgdt", "lidt", "invlpg", "wbinvd"}
C20_FREESTANDING = {"stddef.h", "stdint.h", "stdbool.h", "stdarg.h", "limits.h", "float.h", "iso646.h", "stdalign.h", "stdnoreturn.h"}
C20_OS_MACROS = ["__APPLE__", "__linux__", "__linux", "linux", "_WIN32", "_WIN64", "_WIN16", "__FreeBSD__", "__OpenBSD__", "__NetBSD__", "__sun", "__sun__", "__unix__", "__unix", "unix",
                 "__ANDROID__", "__HAIKU__", "__BEOS__", "__WATCOMC__", "ESP_PLATFORM", "__VMKERNEL__", "__CYGWIN__", "__MINGW32__", "__DragonFly__", "__QNX__", "__MACH__", "VMKERNEL"]


def c20_port_functions(repo):
    txt = open(os.path.join(repo, "lltdResponder", "lltdPort.h")).read()
    txt = re.sub(r"/\*.*?\*/", "", txt, flags=re.S)
    txt = re.sub(r"//.*", "", txt)
    return set(re.findall(r"\b(lltd_port_\w+)\s*\(", txt))


def c20_configs(repo):
    units = sorted(glob.glob(os.path.join(repo, "lltdResponder", "*.c")))
    cfgs = []
    for cc in ("gcc", "clang"):
        for opt in ("-O0", "-O2", "-Os"):
            for mode in ("hosted", "freestanding"):
                for testing in (0, 1):
                    for unit in [[u] for u in units] + [units]:
                        cfgs.append(dict(cc=cc, opt=opt, mode=mode, testing=testing, units=[os.path.relpath(u, repo) for u in unit]))
    # "any supported compiler setting ... including kernel-mode and bare-metal": further settings under which the pinned core builds cleanly
    # (position-independent code as for a shared object, general registers only / no FPU as in kernel code, 32-bit soft-float)
    for cc in ("gcc", "clang"):
        for extra in (["-fPIC"], ["-mgeneral-regs-only"], ["-mno-sse", "-mno-mmx", "-mno-80387", "-msoft-float"], ["-m32", "-msoft-float"], ["-m32", "-fpic"],
                      ["-m32", "-march=i386"],                                                        # no native atomic read-modify-write: C11 atomics become libatomic calls
                      ["-fexceptions", "-fstack-protector-strong", "-fasynchronous-unwind-tables"]):   # what distribution packaging passes: cleanup handlers need the unwinder
            for opt, mode in (("-O2", "freestanding"), ("-O0", "hosted")):
                if mode == "hosted" and "-m32" in extra:
                    continue   # no 32-bit C library headers on this machine: 32-bit settings are freestanding only
                for testing in (0, 1):
                    cfgs.append(dict(cc=cc, opt=opt, mode=mode, testing=testing, extra=extra, units=[os.path.relpath(u, repo) for u in units]))
    # bare-metal targets of the kind the embedded ports use (clang's built-in back ends; no C library needed with -ffreestanding): Cortex-M0, ARM7TDMI, Cortex-M3, RV32IMC
    for extra in C20_CROSS:
        for opt in ("-O2", "-Os", "-O0"):
            cfgs.append(dict(cc="clang", opt=opt, mode="freestanding", testing=0, extra=extra, cross=True, units=[os.path.relpath(u, repo) for u in units]))
    return cfgs


def c20_build(repo, cfg, outdir, tag):
    """compile the unit(s) of one configuration, relocatably link when several; returns (object, error)"""
    flags = [cfg["opt"], "-I" + os.path.join(repo, "lltdResponder"), "-fno-builtin" if False else "-w"]
    if cfg["mode"] == "freestanding":
        flags.append("-ffreestanding")
    if cfg["testing"]:
        flags.append("-DLLTD_TESTING")
    flags += cfg.get("extra", [])
    objs = []
    for i, u in enumerate(cfg["units"]):
        o = os.path.join(outdir, "%s-%d.o" % (tag, i))
        r = subprocess.run([cfg["cc"], "-std=gnu11", *flags, "-c", os.path.join(repo, u), "-o", o], stdout=subprocess.PIPE, stderr=subprocess.STDOUT, text=True)
        if r.returncode:
            return None, "%s does not compile with %s %s: %s" % (u, cfg["cc"], " ".join(flags), r.stdout[-800:])
        objs.append(o)
    if len(objs) == 1:
        return objs[0], None
    out = os.path.join(outdir, tag + "-all.o")
    ld = ["ld.lld", "-r"] if cfg.get("cross") else ["ld", "-r", *(["-m", "elf_i386"] if "-m32" in cfg.get("extra", []) else [])]
    r = subprocess.run([*ld, "-o", out, *objs], stdout=subprocess.PIPE, stderr=subprocess.STDOUT, text=True)
    if r.returncode:
        return None, "ld -r failed: " + r.stdout[-800:]
    return out, None


def c20_undefined(obj):
    r = subprocess.run(["llvm-nm-14", "-u", obj], stdout=subprocess.PIPE, text=True)
    return sorted(l.split()[-1] for l in r.stdout.splitlines() if l.strip())


def c20_core_defined(repo, cfg, outdir, tag):
    """symbols the core defines itself in this configuration (a single unit may reference its sibling units)"""
    units = sorted(os.path.relpath(u, repo) for u in glob.glob(os.path.join(repo, "lltdResponder", "*.c")))
    allcfg = dict(cfg, units=units)
    obj, err = c20_build(repo, allcfg, outdir, tag + "-core")
    if err:
        return set()
    r = subprocess.run(["nm", "--defined-only", obj], stdout=subprocess.PIPE, text=True)
    return set(l.split()[-1] for l in r.stdout.splitlines() if l.strip())


def c20_check_cfg(repo, cfg, outdir, tag, P):
    obj, err = c20_build(repo, cfg, outdir, tag)
    if err:
        return None, "BUILD: " + err
    und = c20_undefined(obj)
    own = c20_core_defined(repo, cfg, outdir, tag) if len(cfg["units"]) == 1 else set()
    und = [s for s in und if s not in own]
    bad = [s for s in und if s not in P and s not in C20_MEM and not C20_RUNTIME.match(s)]
    label = "%s %s %s%s, %s" % (cfg["cc"], cfg["opt"] + "".join(" " + x for x in cfg.get("extra", [])), cfg["mode"], " -DLLTD_TESTING" if cfg["testing"] else "", "+".join(os.path.basename(u) for u in cfg["units"]))
    if not bad and len(cfg["units"]) > 1:
        # what leaves no symbol behind: start-up sections (the core would rely on a C runtime running its constructors) and, on x86, instructions that reach
        # the operating system or the hardware directly (system calls, port I/O, time-stamp counter ...)
        r = subprocess.run(["llvm-objdump-14", "-h", obj], stdout=subprocess.PIPE, stderr=subprocess.DEVNULL, text=True)
        secs = [x for x in C20_RUNTIME_SECTIONS if re.search(r"\s%s\s" % re.escape(x), r.stdout)]
        if secs:
            return und, "core object (%s) carries start-up section(s) %s: it depends on a C runtime that runs constructors, which kernel-mode and bare-metal ports do not have" % (label, ", ".join(secs))
        if not cfg.get("cross"):
            r = subprocess.run(["objdump", "-d", "--no-show-raw-insn", obj], stdout=subprocess.PIPE, stderr=subprocess.DEVNULL, text=True)
            hits = set()
            for line in r.stdout.splitlines():
                m = re.match(r"\s*[0-9a-f]+:\s+([a-z0-9]+)", line)
                if m and m.group(1) in C20_PRIVILEGED:
                    hits.add(m.group(1))
            if hits:
                return und, "core object (%s) contains instruction(s) that reach the system or the hardware without going through the port: %s" % (label, ", ".join(sorted(hits)))
    if bad:
        return und, "core object (%s %s %s%s, %s) references symbol(s) outside the port API: %s" % (
            cfg["cc"], cfg["opt"] + "".join(" " + x for x in cfg.get("extra", [])), cfg["mode"], " -DLLTD_TESTING" if cfg["testing"] else "", "+".join(os.path.basename(u) for u in cfg["units"]), ", ".join(bad))
    return und, None


def c20_lint(repo):
    """include / OS-macro lint over lltdResponder/*.{c,h}; returns list of problems"""
    probs = []
    core = os.path.join(repo, "lltdResponder")
    for f in sorted(glob.glob(os.path.join(core, "*.[ch]"))):
        txt = open(f, errors="replace").read()
        code = re.sub(r"/\*.*?\*/", lambda m: "\n" * m.group(0).count("\n"), txt, flags=re.S)
        for n, line in enumerate(code.splitlines(), 1):
            s = re.sub(r"//.*", "", line).strip()
            m = re.match(r"#\s*include\s*<([^>]+)>", s)
            if m and m.group(1) not in C20_FREESTANDING:
                probs.append("%s:%d includes <%s>, which is not a freestanding C header" % (os.path.relpath(f, repo), n, m.group(1)))
            m = re.match(r'#\s*include\s*"([^"]+)"', s)
            if m and not os.path.exists(os.path.join(core, m.group(1))):
                probs.append('%s:%d includes "%s", which is not inside lltdResponder/' % (os.path.relpath(f, repo), n, m.group(1)))
            elif m and os.path.realpath(os.path.join(core, m.group(1))).find(os.path.realpath(core) + os.sep) != 0:
                probs.append('%s:%d includes "%s", which leaves lltdResponder/' % (os.path.relpath(f, repo), n, m.group(1)))
            if re.match(r"#\s*(if|ifdef|ifndef|elif)\b", s):
                for mac in C20_OS_MACROS:
                    if re.search(r"(?<![A-Za-z0-9_])%s(?![A-Za-z0-9_])" % re.escape(mac), s):
                        probs.append("%s:%d preprocessor conditional on OS macro %s" % (os.path.relpath(f, repo), n, mac))
    script = os.path.join(repo, "scripts", "lint_core_no_os_conditionals.sh")
    if os.path.exists(script):
        r = subprocess.run(["bash", script], cwd=repo, stdout=subprocess.PIPE, stderr=subprocess.STDOUT, text=True)
        if r.returncode:
            probs.append("the repository's own scripts/lint_core_no_os_conditionals.sh fails: " + r.stdout.strip()[-400:])
    return probs


def c20_freestanding_link(repo, outdir, P):
    """the whole core links with -nostdlib -ffreestanding against a stub that defines exactly the port API (+ mem*)"""
    units = sorted(glob.glob(os.path.join(repo, "lltdResponder", "*.c")))
    stub = os.path.join(outdir, "portstub.c")
    with open(stub, "w") as f:
        f.write("/* generated: one definition per function declared in lltdPort.h */\n")
        for n in sorted(P | C20_MEM):
            f.write("void %s(void) {}\n" % n)
        f.write("void __stack_chk_fail(void) {}\nvoid _start(void) {}\n")
    probs = []
    for cc in ("gcc", "clang"):
        for opt in ("-O0", "-O2"):
            exe = os.path.join(outdir, "core-free-%s%s" % (cc, opt))
            r = subprocess.run([cc, "-std=gnu11", opt, "-w", "-ffreestanding", "-fno-builtin", "-nostdlib", "-static", "-fno-stack-protector", "-I" + os.path.join(repo, "lltdResponder"),
                                "-Wl,--no-undefined", "-o", exe, *units, stub], stdout=subprocess.PIPE, stderr=subprocess.STDOUT, text=True)
            if r.returncode:
                und = sorted(set(re.findall(r"undefined reference to `([^']+)'", r.stdout)))
                probs.append("freestanding link of the core against the port stub fails with %s %s: %s" % (cc, opt, ("unresolved " + ", ".join(und)) if und else r.stdout[-400:]))
    return probs


def c20_custom(pid, tier, seed, ctx):
    H = ctx["helpers"]
    repo, rundir, t0 = ctx["REPO"], ctx["rundir"], ctx["t0"]
    P = c20_port_functions(repo)
    cfgs = c20_configs(repo)
    results = []

    def one(i):
        und, err = c20_check_cfg(repo, cfgs[i], rundir, "c%03d" % i, P)
        return i, und, err
    import concurrent.futures as cf
    with cf.ThreadPoolExecutor(H.NCPU) as ex:
        results = list(ex.map(one, range(len(cfgs))))
    violations, samples, nontriv, used = [], [], set(), set()
    for i, und, err in results:
        cfg = cfgs[i]
        key = (cfg["cc"], cfg["opt"], cfg["mode"], cfg["testing"], tuple(cfg["units"]))
        if und:
            nontriv.add(key)
            used.update(s for s in und if s in P)
        if len(samples) < 5 and und and i % 37 == 0:
            samples.append({"config": cfg, "undefined": und})
        if err:
            violations.append(("config", cfg, err))
    for pr in c20_lint(repo):
        violations.append(("lint", None, pr))
    for pr in c20_freestanding_link(repo, rundir, P):
        violations.append(("link", None, pr))
    # known findings are matched on the message text
    known = H.known_findings(pid)
    out_viol = []
    for kind, cfg, msg in violations:
        if any(sig in msg for sig, _ in known):
            continue
        h = hashlib.sha1(msg.encode()).hexdigest()[:10]
        dst = os.path.join(H.OUT, "replays", pid, "found-%s.case" % h)
        os.makedirs(os.path.dirname(dst), exist_ok=True)
        json.dump({"kind": kind, "config": cfg, "message": msg}, open(dst, "w"), indent=1)
        out_viol.append((dst, msg))
    cov = {"evaluations": len(cfgs) + 2, "distinct_nontrivial": len(nontriv), "exhaustive": True,
           "rule": "(plus position-independent, general-registers-only, no-FPU, 32-bit, i386, packaging-flag settings and four bare-metal cross targets for the whole core; whole-core objects are also scanned for start-up sections and for instructions that reach the system or hardware directly) complete matrix {gcc, clang} x {-O0,-O2,-Os} x {hosted,-ffreestanding} x {+/-LLTD_TESTING} x {each lltdResponder/*.c alone, all relocatably linked}: nm -u of every object must be a subset of the functions "
                   "declared in lltdPort.h (parsed at run time) plus memcpy/memset/memmove/memcmp plus compiler runtime helpers; freestanding -nostdlib link against a generated stub defining exactly the port API; "
                   "include and OS-macro lint incl. the repository's own script. non-trivial = object with >= 1 undefined symbol; distinct = (compiler, flags, unit) tuple",
           "samples": samples or [{"config": cfgs[0], "undefined": results[0][1]}], "port_functions_declared": len(P), "port_functions_used": len(used),
           "objects_checked": len(cfgs), "lint_files": len(glob.glob(os.path.join(repo, "lltdResponder", "*.[ch]")))}
    ev = {"property_id": pid, "tier": tier, "seed": seed, "level": "exploration", "coverage": cov,
          "assumptions": ["gcc 12 and clang 14 on x86-64 stand for 'any supported compiler setting'; other ports' cross compilers (OpenWatcom, ESP-IDF, Solaris cc) are not installed here",
                          "symbols the compiler may emit by itself: memcpy/memset/memmove/memcmp, stack protector, libgcc integer helpers"],
          "wall_s": round(time.time() - t0, 2), "violations": len(out_viol), "repo": repo, "technique": "exhaustive configuration matrix with a set-inclusion oracle over undefined symbols; include/macro lint"}
    os.makedirs(os.path.join(H.OUT, "evidence"), exist_ok=True)
    json.dump(ev, open(os.path.join(H.OUT, "evidence", pid + ".json"), "w"), indent=1)
    for sig, desc in known:
        print("KNOWN-FINDING: property=%s %s" % (pid, desc))
    for dst, msg in out_viol[:5]:
        print("  " + msg[:600])
        print("VIOLATION property=%s replay=%s" % (pid, dst))
    if out_viol:
        return 1
    print("OK %s tier=%s objects=%d nontrivial=%d port functions used %d/%d wall=%.1fs" % (pid, tier, len(cfgs), len(nontriv), len(used), len(P), ev["wall_s"]))
    return 0


def c20_replay(pid, path, ctx):
    H = ctx["helpers"]
    repo = ctx["REPO"]
    j = json.load(open(path))
    P = c20_port_functions(repo)
    d = tempfile.mkdtemp(prefix="c20r.", dir=ctx["B"] if os.path.isdir(ctx["B"]) else None)
    try:
        if j["kind"] == "config":
            und, err = c20_check_cfg(repo, j["config"], d, "r", P)
            probs = [err] if err else []
        elif j["kind"] == "lint":
            probs = c20_lint(repo)
        else:
            probs = c20_freestanding_link(repo, d, P)
    finally:
        shutil.rmtree(d, ignore_errors=True)
    if probs:
        for p in probs[:5]:
            print("REPLAY-FAIL " + p[:600])
        print("VIOLATION property=%s replay=%s" % (pid, path))
        return 1
    print("REPLAY-PASS")
    return 0


# ---------------------------------------------------------------------------------------------- C02 auto-init differential
def _c02_build_z(H, pid):
    objs, err = H.build_core("asanz")
    if err:
        return None, "core does not compile for the asanz flavour:\n" + err
    return H.link_runner(pid, "asanz", objs)


def _c02_digest_of(exe, case, H):
    r = subprocess.run([exe, "--digest-of", case], stdout=subprocess.PIPE, stderr=subprocess.STDOUT, text=True, env=H.run_env(), timeout=600)
    m = re.search(r"TRACE-DIGEST (\w+)", r.stdout)
    return m.group(1) if m else None


def c02_autoinit_post(pid, tier, seed, ctx):
    """Runs the same generated cases against a second build of the core that differs only in what an uninitialised automatic variable
    reads (zero instead of the 0xAA pattern) and compares the transmit-trace digests case by case: a difference means that stack
    garbage reaches a transmitted frame or a decision (the determinism clause of C02, for memory the allocation patterns cannot vary)."""
    H = ctx["helpers"]
    rundir, exe_a = ctx["rundir"], ctx["exes"]["asan"]
    exe_z, err = _c02_build_z(H, pid)
    if err:
        return [], {}, [("asanz", 0, err, os.devnull)]
    jobs = [(i, n) for fl, i, n in ctx["jobs"] if fl == "asan"]

    def one(j):
        i, n = j
        out = os.path.join(rundir, "asanz-%d.json" % i)
        cmd = [exe_z, "--tier", tier, "--seed", str(seed), "--shard", "%d/%d" % (i, n), "--out", out, "--failing", os.path.join(rundir, "asanz-%d.failing.case" % i),
               "--digests", os.path.join(rundir, "asanz-%d.dig.txt" % i), "--no-isolate"]
        if ctx.get("scale"):
            cmd += ["--scale", str(ctx["scale"])]
        with open(os.path.join(rundir, "asanz-%d.log" % i), "w") as lf:
            return subprocess.run(cmd, stdout=lf, stderr=subprocess.STDOUT, env=H.run_env(), cwd=rundir).returncode
    import concurrent.futures as cf
    with cf.ThreadPoolExecutor(H.NCPU) as ex:
        list(ex.map(one, jobs))
    compared = differing = 0
    violations, herr = [], []
    for i, n in jobs:
        for fa in glob.glob(os.path.join(rundir, "asan-%d.dig.txt.*" % i)):
            fz = fa.replace("asan-%d.dig" % i, "asanz-%d.dig" % i)
            if not os.path.exists(fz):
                continue
            la, lz = open(fa).read().split("\n"), open(fz).read().split("\n")
            for k, (x, y) in enumerate(zip(la, lz)):
                if not x or not y:
                    continue
                compared += 1
                if x.split()[0] != y.split()[0]:
                    herr.append(("asanz", i, "case sequences of the two builds diverge at index %d (generation is not independent of the core?)" % k, os.devnull))
                    break
                if x != y:
                    differing += 1
                    if violations:
                        continue
                    case = os.path.join(rundir, "autoinit-%d-%d.case" % (i, k))
                    subprocess.run([exe_a, "--tier", tier, "--seed", str(seed), "--shard", "%d/%d" % (i, n), "--dump-index", str(k), "--out", case] + (["--scale", str(ctx["scale"])] if ctx.get("scale") else []),
                                   stdout=subprocess.DEVNULL, stderr=subprocess.DEVNULL, env=H.run_env(), cwd=rundir)
                    if not os.path.exists(case):
                        herr.append(("asanz", i, "could not regenerate case %d" % k, os.devnull))
                        continue
                    res = [(_c02_digest_of(exe_a, case, H), _c02_digest_of(exe_z, case, H)) for _ in range(3)]
                    if all(a and z and a != z for a, z in res):
                        h = hashlib.sha1(open(case, "rb").read()).hexdigest()[:10]
                        dst = os.path.join(H.OUT, "replays", pid, "found-autoinit-%s.case" % h)
                        os.makedirs(os.path.dirname(dst), exist_ok=True)
                        why = ["REPLAY-FAIL transmitted frames differ between two builds of the core that differ only in the value an uninitialised automatic variable reads (0xAA.. vs 0x00..): uninitialised stack memory reaches a frame or a decision"]
                        open(dst, "w").write("# %s\n" % why[0] + open(case).read())
                        violations.append((dst, why))
                    else:
                        herr.append(("asanz", i, "digest difference at index %d does not reproduce on the regenerated case (%s)" % (k, res), os.devnull))
    # saved differential cases
    for case in sorted(glob.glob(os.path.join(ctx["V"], "replays", pid, "*.case"))):
        if "# differential=autoinit" in open(case).read():
            a, z = _c02_digest_of(exe_a, case, H), _c02_digest_of(exe_z, case, H)
            if a and z and a != z:
                violations.append((case, ["REPLAY-FAIL saved differential case: traces of the pattern-initialised and the zero-initialised build differ"]))
    cov = {"autoinit_differential": {"cases_compared_between_builds": compared, "cases_with_different_traces": differing,
                                     "builds": "-ftrivial-auto-var-init=pattern versus =zero for the core translation units"}}
    return violations, cov, herr


def c02_replay(pid, path, ctx):
    """differential cases need both builds; everything else goes through the ordinary replay"""
    if "# differential=autoinit" not in open(path).read():
        return None
    H = ctx["helpers"]
    objs, err = H.build_core("asan")
    exe_a, err2 = H.link_runner(pid, "asan", objs) if not err else (None, err)
    exe_z, err3 = _c02_build_z(H, pid)
    if err or err2 or err3:
        print("HARNESS-ERROR:", err or err2 or err3)
        return 2
    a, z = _c02_digest_of(exe_a, path, H), _c02_digest_of(exe_z, path, H)
    print("trace digest with pattern-initialised automatic variables: %s, zero-initialised: %s" % (a, z))
    if a and z and a != z:
        print("REPLAY-FAIL transmitted frames depend on uninitialised stack memory")
        print("VIOLATION property=%s replay=%s" % (pid, path))
        return 1
    print("REPLAY-PASS")
    return 0
