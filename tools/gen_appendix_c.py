#!/usr/bin/env python3
"""Rewrites the sensitivity table in DESIGN.md (between the BEGIN/END-SENSITIVITY markers) from mutants/RESULTS.json,
mutants/*.patch and seeded/*/meta.json."""
import glob, json, os, re
V = os.path.dirname(os.path.dirname(os.path.abspath(__file__)))
res = {}
rp = os.path.join(V, "mutants", "RESULTS.json")
if os.path.exists(rp):
    for o in json.load(open(rp)):
        res[o["patch"]] = o.get("results", {})

def summary_of_patch(path):
    files = re.findall(r"^\+\+\+ b/(\S+)", open(path).read(), re.M)
    return ", ".join(sorted(set(os.path.basename(f) for f in files)))

rows = []
for p in sorted(glob.glob(os.path.join(V, "mutants", "*.patch"))):
    rel = os.path.relpath(p, V)
    r = res.get(rel, {})
    det = "; ".join("%s %s (%.0f s)" % (k, "caught" if v["detected"] else "MISSED", v["seconds"]) for k, v in sorted(r.items())) or "not run"
    why = next((v["why"] for v in r.values() if v.get("why")), "")
    rows.append(("hand-written", os.path.basename(p)[:-6], summary_of_patch(p), det, why[:150]))
for d in sorted(glob.glob(os.path.join(V, "seeded", "*"))):
    mp = os.path.join(d, "meta.json")
    if not os.path.exists(mp):
        continue
    m = json.load(open(mp))
    rel = os.path.relpath(os.path.join(d, "patch.diff"), V)
    r = res.get(rel) or m.get("detection", {})
    det = "; ".join("%s %s (%.0f s)" % (k, "caught" if v["detected"] else "missed", v["seconds"]) for k, v in sorted(r.items())) or "not run"
    why = next((v["why"] for k, v in sorted(r.items()) if v.get("why") and v.get("detected")), "")
    rows.append(("sub-agent", os.path.basename(d), summary_of_patch(os.path.join(d, "patch.diff")), det, why[:150]))
out = ["Every change below compiles, passes the pinned suite (`make test`, 15 tests) and was applied to a scratch worktree of /repo HEAD; the column",
       "\"quick tier\" is the result of `./check <id> --tier quick` against that tree (seed 1). \"sub-agent\" changes were written by agents that saw",
       "only the property text and a scratch worktree (nothing from /verif); each was confirmed by its own demonstration program (fails with the",
       "change, passes without) before it was kept. For sub-agent changes the first property named is the one the change was written against;",
       "further properties were tried out of curiosity and a miss there is not a gap of that property's check.", "",
       "| origin | change | touches | quick tier | first reason reported |", "|---|---|---|---|---|"]
for r in rows:
    out.append("| %s | %s | %s | %s | %s |" % tuple(x.replace("|", "/") for x in r))
n_hand = sum(1 for r in rows if r[0] == "hand-written")
n_seed = len(rows) - n_hand
out += ["", "%d hand-written mutants, %d sub-agent changes." % (n_hand, n_seed)]
p = os.path.join(V, "DESIGN.md")
s = open(p).read()
a, b = s.index("<!-- BEGIN-SENSITIVITY"), s.index("<!-- END-SENSITIVITY -->")
a = s.index("\n", a) + 1
s = s[:a] + "\n".join(out) + "\n" + s[b:]
open(p, "w").write(s)
print("appendix C: %d rows" % len(rows))
