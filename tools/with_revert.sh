#!/bin/bash
# usage: tools/with_revert.sh <commit-ish to revert | patch file> -- <command...>
# Runs <command> with VERIF_REPO pointing at a scratch worktree of /repo HEAD with the commit reverted
# (or the patch applied). The worktree and its build output are removed afterwards.
set -u
what="$1"; shift; [ "$1" = "--" ] && shift
wt=$(mktemp -d /tmp/lltd-wt.XXXXXX); rmdir "$wt"
git -C /repo worktree add -q --detach "$wt" HEAD || exit 2
if [ -f "$what" ]; then git -C "$wt" apply "$(realpath "$what")" || { git -C /repo worktree remove --force "$wt"; exit 2; }
else git -C "$wt" revert --no-commit "$what" >/dev/null || { git -C /repo worktree remove --force "$wt"; exit 2; }; fi
VERIF_REPO="$wt" VERIF_BUILD="$wt/.vbuild" VERIF_OUT="${VERIF_OUT:-$wt/.vout}" "$@"; rc=$?
git -C /repo worktree remove --force "$wt"; git -C /repo worktree prune
exit $rc
