#!/usr/bin/env python3
"""Confirms and imports a sub-agent's seeded change.
usage: tools/import_seed.py <out-dir> <n> <property> <slug> [extra properties ...]
 - applies <out-dir>/change<n>.diff to a fresh scratch worktree of /repo HEAD
 - runs the pinned suite (make test) with the change, builds + runs the demonstration with and without the change
 - runs the quick checks of the named properties against the changed tree
 - stores /verif/seeded/<property>-<slug>/{patch.diff, demo.c, meta.json}; removes the worktree"""
import json, os, re, shutil, subprocess, sys, tempfile, time
V = os.path.dirname(os.path.dirname(os.path.abspath(__file__)))
out, n, prop, slug = sys.argv[1], sys.argv[2], sys.argv[3], sys.argv[4]
props = [prop] + sys.argv[5:]
patch = os.path.join(out, "change%s.diff" % n)
demo = os.path.join(out, "demo%s.c" % n)
if not os.path.exists(demo) and os.path.exists(os.path.join(out, "demo%s.sh" % n)):
    demo = os.path.join(out, "demo%s.sh" % n)
notes = os.path.join(out, "NOTES.md")

def sh(cmd, **kw):
    return subprocess.run(cmd, shell=isinstance(cmd, str), stdout=subprocess.PIPE, stderr=subprocess.STDOUT, text=True, **kw)

def build_line(demo_src, wt):
    txt = open(demo_src).read()
    m = re.search(r"((?:gcc|cc|clang)\b[^\n*]*(?:\\\n[^\n]*)*)", txt)
    line = m.group(1).replace("\\\n", " ").strip() if m else None
    return line

wt = tempfile.mkdtemp(prefix="lltd-seed.", dir="/tmp"); os.rmdir(wt)
meta = {"properties": props, "patch_from": patch, "ran": []}
assert sh(["git", "-C", "/repo", "worktree", "add", "-q", "--detach", wt, "HEAD"]).returncode == 0
try:
    def demo_run(tag):
        if not demo.endswith(".sh") and re.search(r"/tmp/seed\d*-C\d+/wt", open(demo, errors="replace").read()):
            # the demonstration carries the agent's worktree path in its source (it compiles the core itself): point it at the tree under examination
            local = os.path.join(wt, "demo_local.c")
            open(local, "w").write(re.sub(r"/tmp/seed\d*-C\d+/wt", wt, open(demo, errors="replace").read()))
            demo_src = local
        else:
            demo_src = demo
        if demo.endswith(".sh"):
            r = sh(["sh", demo, wt], cwd=wt, timeout=900)
            meta.setdefault("demo_build", "sh demo.sh $WT")
            return r.returncode, r.stdout[-300:]
        exe = os.path.join(wt, "demo_" + tag)
        core = " ".join(os.path.join(wt, "lltdResponder", f) for f in ("lltdBlock.c", "lltdTlvOps.c", "lltdWire.c", "lltdAutomata.c"))
        inc = "-I%s/lltdResponder -I%s/tests -I%s/os/esp32/daemon" % (wt, wt, wt)
        L = lambda *fs: " ".join(os.path.join(wt, "lltdResponder", f) for f in fs)
        tp = "%s/tests/lltd_test_port.c" % wt
        sets = [(core, tp), (core, ""), (L("lltdAutomata.c"), ""), (L("lltdBlock.c", "lltdTlvOps.c", "lltdWire.c"), tp), (L("lltdBlock.c", "lltdTlvOps.c", "lltdWire.c"), ""),
                (L("lltdAutomata.c"), tp), (L("lltdTlvOps.c", "lltdWire.c"), tp), (L("lltdTlvOps.c", "lltdWire.c"), "")]
        tries = ["gcc -w %s -o %s %s %s %s -lpthread" % (inc, exe, demo, c_, t_) for c_, t_ in sets]
        tries += ["gcc -w -DLLTD_TESTING %s -o %s %s %s %s -lpthread" % (inc, exe, demo, c_, t_) for c_, t_ in sets[:2]]
        # the agent's own build line from the demo's header comment comes first
        head = open(demo).read().split("#include")[0]
        lines = [re.sub(r"^\s*\*\s?", "", l).rstrip() for l in head.splitlines()]
        cmd, acc = None, None
        for l in lines:
            if acc is not None:
                acc += " " + l.rstrip("\\").strip()
                if not l.endswith("\\"):
                    cmd = acc; break
            elif re.search(r"(^|\s|;)(cc|gcc|clang)\s", l):
                acc = l[re.search(r"(cc|gcc|clang)\s", l).start():].rstrip("\\").strip()
                if not l.endswith("\\"):
                    cmd = acc; break
        if cmd:
            cmd = cmd.split("&&")[0].strip()
            cmd = re.sub(r"\$\{?WT\}?", wt, cmd)
            cmd = re.sub(r"/tmp/seed\d*-C\d+/wt", wt, cmd)
            cmd = re.sub(r"\$\{?OUT\}?", os.path.dirname(demo), cmd)
            cmd = re.sub(r"-o\s+\S+", "-o " + exe, cmd)
            if "-o " not in cmd:
                cmd += " -o " + exe
            tries.insert(0, cmd)
        if demo_src != demo:
            tries = [t.replace(demo, demo_src) for t in tries]
        r = None
        for t in tries:
            r = sh(t, cwd=wt)
            if r.returncode == 0:
                meta.setdefault("demo_build", t.replace(wt, "$WT"))
                break
        if r.returncode:
            return None, "demo does not build: " + r.stdout[-600:]
        r = sh([exe], cwd=wt, timeout=300)
        return r.returncode, r.stdout[-300:]
    rc0, out0 = demo_run("clean")
    meta["demo_on_clean_tree"] = {"exit": rc0, "tail": out0}
    r = sh(["git", "-C", wt, "apply", os.path.abspath(patch)])
    if r.returncode:
        print("PATCH DOES NOT APPLY:", r.stdout); sys.exit(2)
    r = sh("make test 2>&1 | grep -E 'PASSED|FAILED'", cwd=wt)
    meta["make_test_with_change"] = r.stdout.strip().replace("\n", " | ")
    rc1, out1 = demo_run("changed")
    meta["demo_on_changed_tree"] = {"exit": rc1, "tail": out1}
    confirmed = rc0 == 0 and rc1 not in (0, None) and "FAILED" not in meta["make_test_with_change"] and "PASSED" in meta["make_test_with_change"]
    meta["confirmed"] = confirmed
    print("demo clean: exit", rc0, "| demo changed: exit", rc1, "| make test:", meta["make_test_with_change"], "| confirmed:", confirmed)
    env = dict(os.environ, VERIF_REPO=wt, VERIF_BUILD=os.path.join(wt, ".vbuild"), VERIF_OUT=os.path.join(wt, ".vout"))
    meta["detection"] = {}
    for p in props:
        t0 = time.time()
        r = subprocess.run([os.path.join(V, "check"), p, "--tier", "quick"], stdout=subprocess.PIPE, stderr=subprocess.STDOUT, text=True, env=env, cwd=V)
        viol = [l for l in r.stdout.splitlines() if l.startswith("VIOLATION")]
        why = [l.strip() for l in r.stdout.splitlines() if l.startswith("  ")][:1]
        meta["detection"][p] = {"exit": r.returncode, "detected": r.returncode == 1 and bool(viol), "seconds": round(time.time() - t0, 1), "why": (why[0][:300] if why else "")}
        meta["ran"].append("VERIF_REPO=<scratch worktree with the change> ./check %s --tier quick" % p)
        print(p, "DETECTED" if meta["detection"][p]["detected"] else "missed (exit %d)" % r.returncode, meta["detection"][p]["why"][:160])
finally:
    sh(["git", "-C", "/repo", "worktree", "remove", "--force", wt]); sh(["git", "-C", "/repo", "worktree", "prune"])
if meta.get("confirmed"):
    d = os.path.join(V, "seeded", "%s-%s" % (prop, slug))
    os.makedirs(d, exist_ok=True)
    shutil.copy(patch, os.path.join(d, "patch.diff"))
    shutil.copy(demo, os.path.join(d, "demo.sh" if demo.endswith(".sh") else "demo.c"))
    if os.path.exists(notes):
        txt = open(notes).read()
        meta["agent_notes_excerpt"] = txt[:6000]
    meta["needs_to_manifest"] = meta.get("needs_to_manifest", "see agent_notes_excerpt (change %s)" % n)
    json.dump(meta, open(os.path.join(d, "meta.json"), "w"), indent=1)
    print("stored", d)
else:
    print("NOT stored (not confirmed)")
