#!/usr/bin/env python3
"""Regenerates MANIFEST.json from props.py (checks, levels, techniques); keeps notes/not_applicable."""
import json, os, sys
V = os.path.dirname(os.path.dirname(os.path.abspath(__file__)))
sys.path.insert(0, V)
from props import PROPS
ids = [json.loads(l)["id"] for l in open(os.path.join(V, "properties.jsonl"))]
LEVEL_TEXT = {
    "exploration": "property-based exploration: generated inputs / histories (and, where the space is finite, complete enumeration) judged by an oracle that is independent of the code under test; holds on everything explored, absence beyond the explored set is not shown",
    "fault_enumeration": "fault enumeration: every allocation index, every transmit index and every getter (single, pairs, sampled subsets) of a scenario corpus is failed in turn, plus generated scenarios; holds on every enumerated fault point",
}
checks = []
for i in ids:
    if i not in PROPS:
        continue
    p = PROPS[i]
    engine = "python matrix engine (engines.py)" if "custom" in p else "rapidcheck runner harness/%s%s" % (
        ", ".join(sum(p["sources"].values(), []) if isinstance(p["sources"], dict) else p["sources"]), " + libFuzzer target fuzz/target.cpp" if i == "C01" else "")
    checks.append({
        "property_id": i,
        "quick_cmd": "./check %s --tier quick" % i,
        "thorough_cmd": "./check %s --tier thorough" % i,
        "evidence_file": "evidence/%s.json" % i,
        "replay_cmd_template": "./check %s --replay {path}" % i,
        "engine": engine,
        "level_claimed": {"category": p["level"], "text": LEVEL_TEXT[p["level"]], "design_ref": "DESIGN.md section 3, " + i},
        "level_note": "; ".join(p.get("assumptions", [])),
        "technique": p["technique"],
    })
m = {
    "version": 1,
    "setup_cmd": "./check --setup",
    "hooks": {"guard": "LLTD_VERIF",
              "enable": "no source hooks exist: every check compiles the working tree's core files unmodified (port/core_block_tu.c textually includes lltdResponder/lltdBlock.c only to append a reset accessor)",
              "baseline_off_cmd": "make -C /repo test", "source_commits": [], "add_only": True},
    "engines": [
        {"name": "rapidcheck runners", "path": "harness/", "serves_properties": [i for i in ids if i in PROPS and "custom" not in PROPS[i]], "kind_free_text": "property-based testing (rapidcheck generators, shrinking, model-based / stateful / differential oracles), ASan+UBSan or TSan builds"},
        {"name": "libFuzzer structure-aware target", "path": "fuzz/target.cpp", "serves_properties": ["C01"], "kind_free_text": "coverage-guided fuzzing with the case decoder of the rapidcheck runner and in-target oracles"},
        {"name": "configuration matrix", "path": "engines.py", "serves_properties": ["C20"], "kind_free_text": "exhaustive enumeration of compiler configurations with a set-inclusion oracle"},
    ],
    "checks": checks,
    "notes": "Driver: ./check (python3). Known findings and repaired defects: known_findings.txt. Sensitivity self-test: ./check --selftest (mutants/, seeded/).",
    "not_applicable": [{"property_id": i, "reason": "check not built yet"} for i in ids if i not in PROPS],
}
json.dump(m, open(os.path.join(V, "MANIFEST.json"), "w"), indent=1)
print("%d checks, %d not applicable" % (len(checks), len(m["not_applicable"])))
