"""Tiny LLTD frame builder (python mirror of harness/h.hpp) for hand-written replay cases and fuzz seeds."""
import struct

def mac(v):
    return v.to_bytes(6, "big")
BCAST = b"\xff" * 6

def header(edst, esrc, tos, op, rdst, rsrc, seq):
    return edst + esrc + b"\x88\xd9" + bytes([1, tos, 0, op]) + rdst + rsrc + struct.pack(">H", seq)

def discover(esrc, rsrc, tos, xid, gen, stations, declared=None):
    n = len(stations) if declared is None else declared
    return header(BCAST, esrc, tos, 0, BCAST, rsrc, xid) + struct.pack(">HH", gen, n) + b"".join(stations)

def emit(edst, esrc, rdst, rsrc, seq, descs, declared=None, tos=0):
    n = len(descs) if declared is None else declared
    body = b"".join(bytes([k, p]) + s + d for (k, p, s, d) in descs)
    return header(edst, esrc, tos, 2, rdst, rsrc, seq) + struct.pack(">H", n) + body

def simple(edst, esrc, tos, op, rdst, rsrc, seq):
    return header(edst, esrc, tos, op, rdst, rsrc, seq)

def qlt(edst, esrc, rdst, rsrc, seq, typ, off, tos=0):
    return header(edst, esrc, tos, 11, rdst, rsrc, seq) + bytes([typ, 0]) + struct.pack(">H", off)

def c01_case(mtu, frames, own=0x020000000001, comment=""):
    out = ["# " + comment] if comment else []
    out.append("cfg %d 0 %d 0" % (mtu, own))
    out += ["blob 686f7374", "blob -", "blob 00010203", "blob 6e616d65", "blob 41004200"]
    for f in frames:
        if isinstance(f, bytes):
            out.append("op 9 | " + f.hex())
        else:
            out.append(f)
    return "\n".join(out) + "\n"
