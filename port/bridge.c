/* The only harness file that includes repo headers. Compiled against $VERIF_REPO on every check. */
#include "bridge.h"

#include <string.h>

#include "lltdAutomata.h"
#include "lltdBlock.h"
#include "lltdPort.h"
#include "lltd_esp32.h"

/* provided by core_block_tu.c (which textually includes the working tree's lltdBlock.c) */
void verif_reset_iface_states(void);
size_t verif_iface_state_count(void);
int verif_reset_level(void);

void br_parse_frame(void *frame, void *ctx) { parseFrame(frame, ctx); }
void br_reset_iface_states(void) { verif_reset_iface_states(); }
size_t br_iface_state_count(void) { return verif_iface_state_count(); }
int br_reset_level(void) { return verif_reset_level(); }

void *br_init_mapping(void) { return init_automata_mapping(); }
void *br_init_enumeration(void) { return init_automata_enumeration(); }
void *br_init_session(void) { return init_automata_session(); }
void br_automata_destroy(void *p) {
    automata *a = (automata *)p;
    if (!a) return;
    if (a->extra) lltd_port_free(a->extra);
    lltd_port_free(a);
}
/* the log tag the switch functions are handed: a short text, or NULL (allowed: the code prints "?" then) */
static char *g_tag = "verif";
void br_set_log_tag_null(int on) { g_tag = on ? NULL : "verif"; }
int br_switch_mapping(void *a, int input) {
    switch_state_mapping((automata *)a, input, g_tag);
    return ((automata *)a)->current_state;
}
int br_switch_enumeration(void *a, int input) {
    switch_state_enumeration((automata *)a, input, g_tag);
    return ((automata *)a)->current_state;
}
int br_switch_session(void *a, int input) {
    switch_state_session((automata *)a, input, g_tag);
    return ((automata *)a)->current_state;
}
int br_aut_state(void *a) { return ((automata *)a)->current_state; }
void br_aut_set_state(void *a, int st) { ((automata *)a)->current_state = (uint8_t)st; }
uint64_t br_aut_last_ts(void *a) { return ((automata *)a)->last_ts; }
void br_aut_set_last_ts(void *a, uint64_t ts) { ((automata *)a)->last_ts = ts; }
int br_aut_timeout(void *a, int st) { return ((automata *)a)->states_table[st].timeout; }
int br_aut_states_no(void *a) { return ((automata *)a)->states_no; }
int br_aut_transitions_no(void *a) { return ((automata *)a)->transitions_no; }
void *br_aut_extra(void *a) { return ((automata *)a)->extra; }

void br_band_get(void *b, br_band *o) {
    band_state *s = (band_state *)b;
    o->Ni = s->Ni; o->r = s->r; o->begun = s->begun ? 1 : 0;
    o->hello_ts = s->hello_timeout_ts; o->block_ts = s->block_timeout_ts;
}
void br_band_set(void *b, const br_band *i) {
    band_state *s = (band_state *)b;
    s->Ni = i->Ni; s->r = i->r; s->begun = i->begun != 0;
    s->hello_timeout_ts = i->hello_ts; s->block_timeout_ts = i->block_ts;
}
void br_band_init_stats(void *b) { band_init_stats((band_state *)b); }
void br_band_update_stats(void *b) { band_update_stats((band_state *)b); }
uint64_t br_band_choose_hello_time(void *b) { return band_choose_hello_time((band_state *)b); }
void br_band_do_hello(void *b) { band_do_hello((band_state *)b); }
void br_band_on_hello_received(void *b) { band_on_hello_received((band_state *)b); }

void br_mapst_get(void *m, br_mapst *o) {
    mapping_state *s = (mapping_state *)m;
    o->ctc = s->ctc; o->charge_ts = s->charge_timeout_ts; o->inactive_ts = s->inactive_timeout_ts;
}
void br_mapping_reset_charge(void *m) { mapping_reset_charge((mapping_state *)m); }
void br_mapping_on_charge(void *m) { mapping_on_charge((mapping_state *)m); }
int br_mapping_check_charge_timeout(void *m) { return mapping_check_charge_timeout((mapping_state *)m); }
int br_mapping_check_inactive_timeout(void *m) { return mapping_check_inactive_timeout((mapping_state *)m); }
void br_mapping_reset_inactive_timeout(void *m) { mapping_reset_inactive_timeout((mapping_state *)m); }

void *br_st_create(void) { return session_table_create(); }
void br_st_destroy(void *t) { session_table_destroy((session_table *)t); }
void *br_st_add(void *t, const uint8_t *mac, uint16_t gen, uint16_t seq) {
    return session_table_add((session_table *)t, mac, gen, seq);
}
void *br_st_find(void *t, const uint8_t *mac, uint16_t gen, uint16_t seq) {
    return session_table_find((session_table *)t, mac, gen, seq);
}
void br_st_remove(void *t, const uint8_t *mac, uint16_t gen) { session_table_remove((session_table *)t, mac, gen); }
void br_st_update(void *t) { session_table_update_complete_status((session_table *)t); }
int br_st_is_empty(void *t) { return session_table_is_empty((session_table *)t) ? 1 : 0; }
int br_st_all_complete(void *t) { return session_table_all_complete((session_table *)t) ? 1 : 0; }
void br_st_clear(void *t) { session_table_clear((session_table *)t); }
int br_st_capacity(void) { return SESSION_TABLE_MAX_ENTRIES; }
unsigned br_st_count(void *t) { return ((session_table *)t)->count; }
int br_st_all_complete_field(void *t) { return ((session_table *)t)->all_complete ? 1 : 0; }
void br_entry_get(void *p, br_entry *o) {
    session_entry *e = (session_entry *)p;
    memcpy(o->mac, e->mapper_mac, 6);
    o->generation = e->generation; o->seq = e->seq_number; o->state = e->state;
    o->complete = e->complete ? 1 : 0; o->valid = e->valid ? 1 : 0;
    o->last_activity = e->last_activity_ts; o->created = e->created_ts;
}
void br_st_get(void *t, int idx, br_entry *o) { br_entry_get(&((session_table *)t)->entries[idx], o); }
void br_entry_set_complete(void *e, int c) { ((session_entry *)e)->complete = c != 0; }
void br_entry_set_state(void *e, unsigned st) { ((session_entry *)e)->state = (uint8_t)st; }
void br_entry_touch(void *e) { ((session_entry *)e)->last_activity_ts = lltd_monotonic_seconds(); }
size_t br_st_sizeof(void) { return sizeof(session_table); }
const void *br_st_raw(void *t) { return t; }

int br_derive_session_event(const void *frame, size_t len, void *table, const uint8_t *our_mac) {
    return derive_session_event(frame, len, (session_table *)table, our_mac);
}

void br_tick(void *mapping, void *enumeration, void *table,
             void *user, uint64_t *last_tx, br_send_hello_fn cb, int with_port) {
    lltd_automata_tick_port port;
    port.network_interface = user;
    port.last_hello_tx_ms = last_tx;
    port.send_hello = cb;
    automata_tick((automata *)mapping, (automata *)enumeration, (session_table *)table,
                  with_port ? &port : NULL);
}

/* ---- ESP32 ---- */
void *br_esp32_new(void) {
    lltd_esp32_ctx_t *c = (lltd_esp32_ctx_t *)lltd_port_malloc(sizeof *c);
    if (!c) return NULL;
    lltd_esp32_init(c);
    return c;
}
void br_esp32_handle(void *ctx, const void *frame, size_t len) {
    lltd_esp32_handle_frame((lltd_esp32_ctx_t *)ctx, frame, len);
}
void br_esp32_states(void *ctx, int out[3]) {
    lltd_esp32_ctx_t *c = (lltd_esp32_ctx_t *)ctx;
    out[0] = c->mapping ? c->mapping->current_state : -1;
    out[1] = c->session ? c->session->current_state : -1;
    out[2] = c->enumeration ? c->enumeration->current_state : -1;
}
void br_esp32_free(void *ctx) {
    lltd_esp32_ctx_t *c = (lltd_esp32_ctx_t *)ctx;
    if (!c) return;
    br_automata_destroy(c->mapping);
    br_automata_destroy(c->session);
    br_automata_destroy(c->enumeration);
    lltd_port_free(c);
}

/* ---- Darwin flow: transcription of os/darwin/daemon/darwin-main.c:lltdLoop (lines 266-404) ---- */
int br_darwin_init(br_darwin *d) {
    d->mapping = init_automata_mapping();
    d->session = init_automata_session();
    d->enumeration = init_automata_enumeration();
    d->table = session_table_create();
    d->last_hello_tx_ms = 0;
    if (!d->mapping || !d->session || !d->enumeration || !d->table) {
        br_darwin_destroy(d);
        return -1;
    }
    return 0;
}
void br_darwin_destroy(br_darwin *d) {
    br_automata_destroy(d->mapping);
    br_automata_destroy(d->session);
    br_automata_destroy(d->enumeration);
    session_table_destroy((session_table *)d->table);
    d->mapping = d->session = d->enumeration = d->table = NULL;
}
static void darwin_tick(br_darwin *d) {
    lltd_automata_tick_port tick_port;
    tick_port.network_interface = d->user;
    tick_port.last_hello_tx_ms = &d->last_hello_tx_ms;
    tick_port.send_hello = d->send_hello;
    automata_tick((automata *)d->mapping, (automata *)d->enumeration, (session_table *)d->table, &tick_port);
}
void br_darwin_idle_tick(br_darwin *d) { darwin_tick(d); }
void br_darwin_rx(br_darwin *d, void *frame, size_t len) {
    automata *mappingAutomata = (automata *)d->mapping;
    automata *sessionAutomata = (automata *)d->session;
    automata *enumerationAutomata = (automata *)d->enumeration;
    session_table *sessionTable = (session_table *)d->table;
    lltd_demultiplex_header_t *header = (lltd_demultiplex_header_t *)frame;

    int sess_event = derive_session_event(frame, len, sessionTable, d->mac);

    if (header->opcode == opcode_discover) {
        lltd_discover_upper_header_t *disc_header = (lltd_discover_upper_header_t *)(header + 1);
        uint16_t generation = (uint16_t)((((const uint8_t *)&disc_header->generation)[0] << 8) |
                                         ((const uint8_t *)&disc_header->generation)[1]);
        uint16_t seq = (uint16_t)((((const uint8_t *)&header->seqNumber)[0] << 8) |
                                  ((const uint8_t *)&header->seqNumber)[1]);
        session_entry *entry = session_table_add(sessionTable, header->realSource.a, generation, seq);
        if (entry) {
            entry->state = (uint8_t)sess_event;
            entry->last_activity_ts = lltd_monotonic_seconds();
            if (sess_event == sess_discover_acking || sess_event == sess_discover_acking_chgd_xid) {
                entry->complete = true;
            }
        }
        session_table_update_complete_status(sessionTable);
    } else if (header->opcode == opcode_reset) {
        session_table_clear(sessionTable);
    }

    uint8_t prev_mapping_state = mappingAutomata->current_state;
    switch_state_mapping(mappingAutomata, header->opcode, "rx");
    if (prev_mapping_state != 0 && mappingAutomata->current_state == 0) {
        session_table_clear(sessionTable);
    }
    if (mappingAutomata->extra) {
        mapping_reset_inactive_timeout((mapping_state *)mappingAutomata->extra);
    }
    if (header->opcode == opcode_charge && mappingAutomata->extra) {
        mapping_on_charge((mapping_state *)mappingAutomata->extra);
    }
    if (sess_event >= 0) {
        switch_state_session(sessionAutomata, sess_event, "rx");
    }
    if (header->opcode == opcode_hello) {
        if (enumerationAutomata->extra) {
            band_on_hello_received((band_state *)enumerationAutomata->extra);
        }
        switch_state_enumeration(enumerationAutomata, enum_hello, "rx");
    } else if (header->opcode == opcode_discover) {
        if (enumerationAutomata->current_state == 0) {
            if (enumerationAutomata->extra) {
                band_init_stats((band_state *)enumerationAutomata->extra);
                band_choose_hello_time((band_state *)enumerationAutomata->extra);
            }
        } else if (enumerationAutomata->extra) {
            ((band_state *)enumerationAutomata->extra)->begun = true;
        }
        switch_state_enumeration(enumerationAutomata, enum_new_session, "rx");
    }

    if (d->call_parse_frame) {
        parseFrame(frame, d->ctx);
    }
    if (!d->skip_trailing_tick) {
        darwin_tick(d);
    }
}

void br_linux_rx(void *mapping, void *session, void *frame, void *ctx) {
    lltd_demultiplex_header_t *header = (lltd_demultiplex_header_t *)frame;
    switch_state_mapping((automata *)mapping, header->opcode, "rx");
    switch_state_session((automata *)session, header->opcode, "rx");
    parseFrame(frame, ctx);
}

long br_const(const char *n) {
#define C(x) if (!strcmp(n, #x)) return (long)(x)
    C(BAND_NMAX); C(BAND_ALPHA); C(BAND_BETA); C(BAND_GAMMA); C(BAND_TXC); C(BAND_BLOCK_TIME);
    C(HELLO_MIN_INTERVAL_MS); C(SESSION_TABLE_MAX_ENTRIES); C(MAX_STATES); C(MAX_TRANSITIONS);
    if (!strcmp(n, "BAND_MUL_FRAME_1")) return (long)BAND_MUL_FRAME(1);
    if (!strcmp(n, "sizeof_header")) return (long)sizeof(lltd_demultiplex_header_t);
#undef C
    return -999999;
}
