/* Flat C ABI between the harness (which includes no repo header) and the core.
 * bridge.c is recompiled against the working tree on every check. */
#ifndef BRIDGE_H
#define BRIDGE_H
#include <stddef.h>
#include <stdint.h>
#ifdef __cplusplus
extern "C" {
#endif

/* ---- frame path ---- */
void br_parse_frame(void *frame, void *ctx);
void br_reset_iface_states(void);               /* forget every per-interface record (frees through the port) */
size_t br_iface_state_count(void);
int    br_reset_level(void);                    /* 1: records can be forgotten between cases; 0: fallback, records stay (see core_block_stub.c) */

/* ---- generic automaton access ---- */
void *br_init_mapping(void);
void *br_init_enumeration(void);
void *br_init_session(void);
void  br_automata_destroy(void *a);             /* frees extra (if any) and the object through the port */
int   br_switch_mapping(void *a, int input);    /* returns current_state afterwards */
void  br_set_log_tag_null(int on);              /* the switch functions get NULL instead of a text as their log tag */
int   br_switch_enumeration(void *a, int input);
int   br_switch_session(void *a, int input);
int   br_aut_state(void *a);
void  br_aut_set_state(void *a, int st);
uint64_t br_aut_last_ts(void *a);
void  br_aut_set_last_ts(void *a, uint64_t ts);
int   br_aut_timeout(void *a, int st);
int   br_aut_states_no(void *a);
int   br_aut_transitions_no(void *a);
void *br_aut_extra(void *a);

typedef struct br_band { uint32_t Ni, r; int begun; uint64_t hello_ts, block_ts; } br_band;
void  br_band_get(void *band, br_band *out);
void  br_band_set(void *band, const br_band *in);
void  br_band_init_stats(void *band);
void  br_band_update_stats(void *band);
uint64_t br_band_choose_hello_time(void *band);
void  br_band_do_hello(void *band);
void  br_band_on_hello_received(void *band);

typedef struct br_mapst { unsigned ctc; uint64_t charge_ts, inactive_ts; } br_mapst;
void  br_mapst_get(void *m, br_mapst *out);
void  br_mapping_reset_charge(void *m);
void  br_mapping_on_charge(void *m);
int   br_mapping_check_charge_timeout(void *m);
int   br_mapping_check_inactive_timeout(void *m);
void  br_mapping_reset_inactive_timeout(void *m);

/* ---- session table ---- */
typedef struct br_entry {
    uint8_t mac[6]; uint16_t generation, seq; unsigned state; int complete, valid;
    uint64_t last_activity, created;
} br_entry;
void *br_st_create(void);
void  br_st_destroy(void *t);
void *br_st_add(void *t, const uint8_t *mac, uint16_t gen, uint16_t seq);   /* entry pointer or NULL */
void *br_st_find(void *t, const uint8_t *mac, uint16_t gen, uint16_t seq);
void  br_st_remove(void *t, const uint8_t *mac, uint16_t gen);
void  br_st_update(void *t);
int   br_st_is_empty(void *t);
int   br_st_all_complete(void *t);
void  br_st_clear(void *t);
int   br_st_capacity(void);
unsigned br_st_count(void *t);
int   br_st_all_complete_field(void *t);
void  br_st_get(void *t, int idx, br_entry *out);
void  br_entry_get(void *e, br_entry *out);
void  br_entry_set_complete(void *e, int complete);
void  br_entry_set_state(void *e, unsigned st);
void  br_entry_touch(void *e);                  /* last_activity = now (s) */
size_t br_st_sizeof(void);
const void *br_st_raw(void *t);                 /* for bitwise "undisturbed" comparison */

int   br_derive_session_event(const void *frame, size_t len, void *table, const uint8_t *our_mac);

/* ---- tick ---- */
typedef void (*br_send_hello_fn)(void *user);
/* wired as darwin-main.c does: last_hello_tx_ms points at *last_tx, callback gets user */
void  br_tick(void *mapping, void *enumeration, void *table,
              void *user, uint64_t *last_tx, br_send_hello_fn cb, int with_port);

/* ---- ESP32 entry ---- */
void *br_esp32_new(void);
void  br_esp32_handle(void *ctx, const void *frame, size_t len);
void  br_esp32_free(void *ctx);
void  br_esp32_states(void *ctx, int out[3]);

/* ---- Darwin per-frame flow (transcribed from os/darwin/daemon/darwin-main.c:lltdLoop) ---- */
typedef struct br_darwin {
    void *mapping, *session, *enumeration, *table;
    uint64_t last_hello_tx_ms;
    uint8_t mac[6];
    void *ctx;                     /* iface ctx handed to parseFrame */
    br_send_hello_fn send_hello; void *user;
    int call_parse_frame;          /* 0: automata only */
    int skip_trailing_tick;        /* 1: br_darwin_rx leaves the trailing automata_tick to the caller (br_darwin_idle_tick) */
} br_darwin;
int   br_darwin_init(br_darwin *d);   /* 0 ok; -1 if a constructor returned NULL (everything released) */
void  br_darwin_destroy(br_darwin *d);
void  br_darwin_rx(br_darwin *d, void *frame, size_t len);   /* one received frame (recvfrom length len), incl. the trailing tick */
void  br_darwin_idle_tick(br_darwin *d);         /* receive timeout path */
/* Linux loop flow: raw opcode into mapping/session automata, then parseFrame */
void  br_linux_rx(void *mapping, void *session, void *frame, void *ctx);

/* ---- constants from the working tree's headers ---- */
long  br_const(const char *name);    /* BAND_NMAX, BAND_ALPHA, ..., -999999 if unknown */

#ifdef __cplusplus
}
#endif
#endif
