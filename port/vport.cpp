// Verification port: every function of lltdPort.h, backed by harness-controlled state.
// Built as C++ for the ledger's hash map; all port symbols have C linkage.
// -DVPORT_TLS: all state thread-local and lock-free (TSan flavour, see DESIGN.md C17).
#include "vport.h"

#include <cstdarg>
#include <cstdio>
#include <cstdlib>
#include <cstring>
#include <unordered_map>
#include <vector>

#ifdef VPORT_TLS
#define VP_TLS thread_local
#else
#define VP_TLS
#endif

namespace {
struct State {
    uint64_t now_ms = 1000;
    int sleep_advances = 0;
    std::vector<vp_event> log;
    int log_on = 1;
    uint64_t sends = 0, refused = 0;
    long fail_alloc_at = 0, fail_alloc_from = 0, fail_send_at = 0;
    int fail_send_always = 0;
    uint64_t alloc_calls = 0, alloc_failed = 0;
    int pattern = 0xA5;
    std::unordered_map<void *, size_t> live;
    size_t live_bytes = 0, high_bytes = 0;
    int violations = 0;
    char last_violation[160] = {0};
    int fmt_check = 1;
    uint64_t log_calls = 0;
};
// machine-wide configuration: process-wide even in the TLS flavour (written by the harness only while no worker thread runs)
vp_global_cfg G{};
VP_TLS State *Sp = nullptr;
State &S() {
    if (!Sp) Sp = new State();
    return *Sp;
}
void clear_log(State &s) {
    for (auto &e : s.log) free(e.data);
    s.log.clear();
}
}  // namespace

extern "C" {

void vp_reset_all(void) {
    State &s = S();
    clear_log(s);
    vp_ledger_forget_all();
    s.now_ms = 1000;
    s.sleep_advances = 0;
    s.log_on = 1;
    s.sends = s.refused = 0;
    s.fail_alloc_at = s.fail_alloc_from = s.fail_send_at = 0;
    s.fail_send_always = 0;
    s.alloc_calls = s.alloc_failed = 0;
    s.pattern = 0xA5;
    s.live_bytes = s.high_bytes = 0;
    s.violations = 0;
    s.last_violation[0] = 0;
    s.log_calls = 0;
    memset(&G, 0, sizeof(G));
}
vp_global_cfg *vp_global(void) { return &G; }

void vp_set_now_ms(uint64_t ms) { S().now_ms = ms; }
uint64_t vp_now_ms(void) { return S().now_ms; }
void vp_sleep_advances_clock(int on) { S().sleep_advances = on; }

size_t vp_log_count(void) { return S().log.size(); }
const vp_event *vp_log_get(size_t i) { return &S().log[i]; }
void vp_log_clear(void) { clear_log(S()); }
void vp_log_enable(int on) { S().log_on = on; }
uint64_t vp_send_count(void) { return S().sends; }

void vp_fail_alloc_at(long k) { S().fail_alloc_at = k; }
void vp_fail_alloc_from(long k) { S().fail_alloc_from = k; }
void vp_fail_send_at(long k) { S().fail_send_at = k; }
void vp_fail_send_always(int on) { S().fail_send_always = on; }
uint64_t vp_alloc_calls(void) { return S().alloc_calls; }
uint64_t vp_alloc_failed(void) { return S().alloc_failed; }
uint64_t vp_send_refused(void) { return S().refused; }

void vp_fill_pattern(int byte) { S().pattern = byte < 0 ? byte : (byte & 0xFF); }
/* pattern < 0: fresh memory looks like small records (8 octets each: two small numbers, padding, a small 32-bit number) instead of one repeated byte -
   stale table rows, counters and flags as a recycled block would hold them; -1-phase selects which */
static void structured_fill(uint8_t *p, size_t size, int pattern) {
    unsigned phase = (unsigned)(-1 - pattern);
    for (size_t k = 0; k < size; k++) {
        unsigned rec = (unsigned)(k / 8) + phase, f = (unsigned)(k % 8);
        p[k] = f == 0 ? (uint8_t)(rec & 3) : f == 1 ? (uint8_t)((rec >> 2) & 3) : f == 4 ? (uint8_t)((rec >> 4) & 7) : 0;
    }
}
size_t vp_live_blocks(void) { return S().live.size(); }
size_t vp_live_bytes(void) { return S().live_bytes; }
size_t vp_high_bytes(void) { return S().high_bytes; }
int vp_ledger_violations(void) { return S().violations; }
const char *vp_ledger_last_violation(void) { return S().last_violation; }
void vp_ledger_disown_all(void) {
    State &s = S();
    s.live.clear();
    s.live_bytes = 0;
}
void vp_ledger_forget_all(void) {
    State &s = S();
    for (auto &kv : s.live) free(kv.first);
    s.live.clear();
    s.live_bytes = 0;
}
int vp_log_format_check(int on) {
    int old = S().fmt_check;
    S().fmt_check = on;
    return old;
}
uint64_t vp_log_calls(void) { return S().log_calls; }

/* ------------------------------------------------------------------ port API */

uint64_t lltd_port_monotonic_seconds(void) { return S().now_ms / 1000; }
uint64_t lltd_port_monotonic_milliseconds(void) { return S().now_ms; }

void *lltd_port_malloc(size_t size) {
    State &s = S();
    s.alloc_calls++;
    bool fail = false;
    if (s.fail_alloc_at > 0 && --s.fail_alloc_at == 0) fail = true;
    if (s.fail_alloc_from > 0) {
        if (s.fail_alloc_from == 1) fail = true;
        else s.fail_alloc_from--;
    }
    if (fail) {
        s.alloc_failed++;
        return nullptr;
    }
    void *p = malloc(size ? size : 1);
    if (!p) return nullptr;
    if (s.pattern < 0) structured_fill((uint8_t *)p, size, s.pattern); else memset(p, s.pattern, size);
    s.live[p] = size;
    s.live_bytes += size;
    if (s.live_bytes > s.high_bytes) s.high_bytes = s.live_bytes;
    return p;
}

void lltd_port_free(void *ptr) {
    State &s = S();
    if (!ptr) return;
    auto it = s.live.find(ptr);
    if (it == s.live.end()) {
#ifdef VPORT_TLS
        free(ptr);   // per-thread ledgers: a block may be released by a thread other than its allocator; the ledger is not an oracle in this flavour
        return;
#endif
        s.violations++;
        snprintf(s.last_violation, sizeof s.last_violation,
                 "lltd_port_free(%p): pointer not live in the ledger (double or foreign free)", ptr);
        return;  // do not really free: keeps the run alive so that the case can be reported
    }
    memset(ptr, 0xDD, it->second);
    s.live_bytes -= it->second;
    s.live.erase(it);
    free(ptr);
}

void *lltd_port_memset(void *ptr, int value, size_t num) { return memset(ptr, value, num); }
void *lltd_port_memcpy(void *d, const void *src, size_t num) { return memcpy(d, src, num); }
int lltd_port_memcmp(const void *a, const void *b, size_t num) { return memcmp(a, b, num); }

void lltd_port_sleep_ms(uint32_t ms) {
    State &s = S();
    if (s.log_on) {
        vp_event e{};
        e.kind = VE_SLEEP;
        e.ms = ms;
        s.log.push_back(e);
    }
    if (s.sleep_advances) s.now_ms += ms;
}

int lltd_port_send_frame(void *ctx, const void *frame, size_t len) {
    State &s = S();
    s.sends++;
    bool refuse = s.fail_send_always != 0;
    if (s.fail_send_at > 0 && --s.fail_send_at == 0) refuse = true;
    if (refuse) s.refused++;
    if (s.log_on) {
        vp_event e{};
        e.kind = refuse ? VE_SEND_REFUSED : VE_SEND;
        e.ctx = ctx;
        e.len = len;
        e.data = (uint8_t *)malloc(len ? len : 1);
        if (frame && len) memcpy(e.data, frame, len);  // ASan-visible read of exactly len bytes
        s.log.push_back(e);
    } else if (frame && len) {
        // still touch every byte so that ASan sees an over-long length
        volatile uint8_t acc = 0;
        const uint8_t *p = (const uint8_t *)frame;
        for (size_t i = 0; i < len; i++) acc ^= p[i];
        (void)acc;
    }
    return refuse ? -1 : 0;
}

#define VIF(ctx) ((vif *)(ctx))
static bool getter_fails(vif *v, uint32_t bit) {
    v->calls_mask |= bit;
    v->calls[__builtin_ctz(bit) & 15]++;
    if (v->fail & bit) return true;
    if ((v->fail_nth_mask & bit) && v->fail_nth > 0 && --v->fail_nth == 0) return true;
    return false;
}
#ifdef VPORT_TLS
#define GCALL(bit) ((void)0)   /* no shared writes from receive threads */
#else
#define GCALL(bit) (G.calls_mask |= (bit))
#endif

int lltd_port_get_mtu(void *ctx, size_t *out) {
    vif *v = VIF(ctx);
    if (!v) return -1;
    if (getter_fails(v, VF_MTU)) {
        if (v->fail_style == 2) { *out = 0; return 0; }
        if (v->fail_style == 1) *out = 7;
        return -1;
    }
    *out = v->mtu;
    return 0;
}

static int hand_out(const uint8_t *src, size_t len, void **out_data, size_t *out_size) {
    // ownership passes to the core: the copy lives in the ledger (as os/darwin/lltd_port.c does)
    void *p = lltd_port_malloc(len ? len : 1);
    if (!p) {
        *out_data = nullptr;
        *out_size = 0;
        return -1;
    }
    if (len) memcpy(p, src, len);
    *out_data = p;
    *out_size = len;
    return 0;
}

int lltd_port_get_icon_image(void **out_data, size_t *out_size) {
    State &s = S();
    GCALL(VG_ICON);
    if ((G.fail & VG_ICON) || !G.icon) {
        if (out_data) *out_data = nullptr;
        if (out_size) *out_size = 0;
        return -1;
    }
    return hand_out(G.icon, G.icon_len, out_data, out_size);
}

int lltd_port_get_friendly_name(void **out_data, size_t *out_size) {
    State &s = S();
    GCALL(VG_FRIENDLY);
    if ((G.fail & VG_FRIENDLY) || !G.friendly) {
        if (out_data) *out_data = nullptr;
        if (out_size) *out_size = 0;
        return -1;
    }
    return hand_out(G.friendly, G.friendly_len, out_data, out_size);
}

static size_t copy_clamped(void *dst, size_t dst_len, const uint8_t *src, size_t len, int untrunc) {
    if (!dst || dst_len == 0) return 0;
    size_t n = len > dst_len ? dst_len : len;
    memcpy(dst, src, n);
    return untrunc ? len : n;
}

size_t lltd_port_get_hostname(void *dst, size_t dst_len) {
    State &s = S();
    GCALL(VG_HOSTNAME);
    if (G.fail & VG_HOSTNAME) return 0;
    return copy_clamped(dst, dst_len, G.hostname, G.hostname_len, G.hostname_untrunc);
}
size_t lltd_port_get_support_url(void *dst, size_t dst_len) {
    State &s = S();
    GCALL(VG_URL);
    if (G.fail & VG_URL) return 0;
    return copy_clamped(dst, dst_len, G.url, G.url_len, 0);
}
int lltd_port_get_upnp_uuid(uint8_t out_uuid[16]) {
    State &s = S();
    GCALL(VG_UUID);
    if (G.fail & VG_UUID) return -1;
    memcpy(out_uuid, G.uuid, 16);
    return 0;
}
size_t lltd_port_get_hw_id(void *dst, size_t dst_len) {
    State &s = S();
    GCALL(VG_HWID);
    if (G.fail & VG_HWID) return 0;
    return copy_clamped(dst, dst_len, G.hwid, G.hwid_len, G.hwid_untrunc);
}

int lltd_port_get_mac_address(void *ctx, void *out_mac) {
    vif *v = VIF(ctx);
    if (!v || !out_mac) return -1;
    if (getter_fails(v, VF_MAC)) return -1;   /* always leaves the output untouched: the core is entitled to its own initial value then */
    memcpy(out_mac, v->mac, 6);
    return 0;
}
uint32_t lltd_port_get_characteristics_flags(void *ctx) {
    vif *v = VIF(ctx);
    return v ? v->flags : 0;
}
int lltd_port_get_if_type(void *ctx, uint32_t *out) {
    vif *v = VIF(ctx);
    if (!v) return -1;
    if (getter_fails(v, VF_IFTYPE)) { if (v->fail_style == 1) *out = 0xA5A5A5A5u; return -1; }
    *out = v->iftype;
    return 0;
}
int lltd_port_get_ipv4_address(void *ctx, uint32_t *out) {
    vif *v = VIF(ctx);
    if (!v) return -1;
    if (getter_fails(v, VF_IPV4)) { if (v->fail_style == 1) *out = 0xA5A5A5A5u; return -1; }
    *out = v->ipv4_be;
    return 0;
}
int lltd_port_get_ipv6_address(void *ctx, uint8_t out[16]) {
    vif *v = VIF(ctx);
    if (!v) return -1;
    if (getter_fails(v, VF_IPV6)) { if (v->fail_style == 1) memset(out, 0xA5, 16); return -1; }
    memcpy(out, v->ipv6, 16);
    return 0;
}
int lltd_port_get_link_speed_100bps(void *ctx, uint32_t *out) {
    vif *v = VIF(ctx);
    if (!v) return -1;
    if (getter_fails(v, VF_SPEED)) { if (v->fail_style == 1) *out = 0xA5A5A5A5u; return -1; }
    *out = v->speed;
    return 0;
}
int lltd_port_get_wifi_mode(void *ctx, uint8_t *out) {
    vif *v = VIF(ctx);
    if (!v || !v->wifi) return -1;
    *out = v->wifi_mode;
    return 0;
}
int lltd_port_get_bssid(void *ctx, uint8_t out[6]) {
    vif *v = VIF(ctx);
    if (!v || !v->wifi) return -1;
    if (getter_fails(v, VF_BSSID)) return -1;
    memcpy(out, v->bssid, 6);
    return 0;
}
size_t lltd_port_get_ssid(void *ctx, void *dst, size_t dst_len) {
    vif *v = VIF(ctx);
    if (!v || !v->wifi) return 0;
    if (getter_fails(v, VF_SSID)) return 0;
    return copy_clamped(dst, dst_len, v->ssid, v->ssid_len, v->ssid_untrunc);
}
int lltd_port_get_wifi_max_rate_0_5mbps(void *ctx, uint16_t *out) {
    vif *v = VIF(ctx);
    if (!v || !v->wifi) return -1;
    if (getter_fails(v, VF_RATE)) return -1;
    *out = v->rate;
    return 0;
}
int lltd_port_get_wifi_rssi_dbm(void *ctx, int8_t *out) {
    vif *v = VIF(ctx);
    if (!v || !v->wifi) return -1;
    if (getter_fails(v, VF_RSSI)) return -1;
    *out = v->rssi;
    return 0;
}
int lltd_port_get_wifi_phy_medium(void *ctx, uint32_t *out) {
    vif *v = VIF(ctx);
    if (!v || !v->wifi) return -1;
    if (getter_fails(v, VF_PHY)) return -1;
    *out = v->phy;
    return 0;
}

static void vlog(const char *fmt, va_list ap) {
    State &s = S();
    s.log_calls++;
    if (s.fmt_check && fmt) {
        char buf[512];
        vsnprintf(buf, sizeof buf, fmt, ap);  // dereferences every %s argument
    }
}
void lltd_port_log_debug(const char *fmt, ...) {
    va_list ap;
    va_start(ap, fmt);
    vlog(fmt, ap);
    va_end(ap);
}
void lltd_port_log_warning(const char *fmt, ...) {
    va_list ap;
    va_start(ap, fmt);
    vlog(fmt, ap);
    va_end(ap);
}

}  // extern "C"
