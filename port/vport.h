/* Verification port for the LLTD core: implements every lltd_port_* function
 * (see /repo/lltdResponder/lltdPort.h) on top of harness-controlled state.
 * Includes NO repo header. Shared by the C bridge and the C++ harness. */
#ifndef VPORT_H
#define VPORT_H
#include <stddef.h>
#include <stdint.h>

#ifdef __cplusplus
extern "C" {
#endif

/* bits of vif.fail: the corresponding getter reports failure */
enum {
    VF_MTU = 1 << 0, VF_MAC = 1 << 1, VF_IFTYPE = 1 << 2, VF_IPV4 = 1 << 3,
    VF_IPV6 = 1 << 4, VF_SPEED = 1 << 5, VF_BSSID = 1 << 6, VF_SSID = 1 << 7,
    VF_RATE = 1 << 8, VF_RSSI = 1 << 9, VF_PHY = 1 << 10,
    /* machine-wide (vp_global.fail) */
    VG_ICON = 1 << 16, VG_FRIENDLY = 1 << 17, VG_HOSTNAME = 1 << 18,
    VG_HWID = 1 << 19, VG_UUID = 1 << 20, VG_URL = 1 << 21
};

typedef struct vif {
    int      id;
    size_t   mtu;
    uint8_t  mac[6];
    uint32_t flags;          /* characteristics flags (low 16 bits meaningful) */
    uint32_t iftype;
    uint32_t ipv4_be;        /* bytes in memory = wire bytes */
    uint8_t  ipv6[16];
    uint32_t speed;
    int      wifi;           /* 0: wired (wifi_mode getter fails) */
    uint8_t  wifi_mode;
    uint8_t  bssid[6];
    uint8_t  ssid[64];
    size_t   ssid_len;
    int      ssid_untrunc;   /* return full length though only dst_len bytes written */
    uint16_t rate;
    int8_t   rssi;
    uint32_t phy;
    uint32_t fail;           /* VF_* mask */
    /* statistics: calls per getter (for "fault was actually hit") */
    uint32_t calls_mask;
    uint32_t calls[16];      /* calls per getter, indexed by the bit number of its VF_* flag */
    uint32_t fail_nth_mask;  /* one-shot fault: the fail_nth-th call (counted over the getters in this mask) fails once */
    long     fail_nth;
    int      fail_style;     /* how a failing per-interface getter fails: 0 returns an error and leaves its output untouched; 1 scribbles over its output
                                first (MTU: 7) and then returns the error; 2 (MTU getter only) reports success with the value 0 ("never learnt") */
} vif;

typedef struct vp_global_cfg {
    uint8_t  hostname[64]; size_t hostname_len; int hostname_untrunc;
    uint8_t *icon; size_t icon_len;          /* harness-owned; port hands out a ledger copy */
    uint8_t *friendly; size_t friendly_len;
    uint8_t  hwid[160]; size_t hwid_len; int hwid_untrunc;   /* copied into dst up to dst_len; the return value is the copied or (untrunc) the full length */
    uint8_t  uuid[16];
    uint8_t  url[64]; size_t url_len;
    uint32_t fail;                           /* VG_* mask */
    uint32_t calls_mask;
} vp_global_cfg;

enum { VE_SEND = 1, VE_SEND_REFUSED = 2, VE_SLEEP = 3 };
typedef struct vp_event {
    int      kind;
    void    *ctx;
    uint32_t ms;        /* VE_SLEEP */
    size_t   len;       /* VE_SEND* */
    uint8_t *data;      /* VE_SEND*: exact copy of len bytes */
} vp_event;

/* ---- control surface ---- */
void     vp_reset_all(void);                 /* clock, log, ledger counters, faults, global cfg */
vp_global_cfg *vp_global(void);

void     vp_set_now_ms(uint64_t ms);
uint64_t vp_now_ms(void);
void     vp_sleep_advances_clock(int on);

size_t   vp_log_count(void);
const vp_event *vp_log_get(size_t i);
void     vp_log_clear(void);
void     vp_log_enable(int on);              /* off: sends are counted only (floods) */
uint64_t vp_send_count(void);

/* faults */
void     vp_fail_alloc_at(long k);           /* k-th allocation from now fails once (0 = off) */
void     vp_fail_alloc_from(long k);         /* every allocation from the k-th on fails (0 = off) */
void     vp_fail_send_at(long k);            /* k-th send from now refused (0 = off) */
void     vp_fail_send_always(int on);
uint64_t vp_alloc_calls(void);               /* number of lltd_port_malloc calls since reset */
uint64_t vp_alloc_failed(void);              /* how many of those were made to fail */
uint64_t vp_send_refused(void);

/* ledger */
void     vp_fill_pattern(int byte);          /* fresh blocks are filled with this byte */
size_t   vp_live_blocks(void);
size_t   vp_live_bytes(void);
size_t   vp_high_bytes(void);
int      vp_ledger_violations(void);         /* foreign/double free seen */
const char *vp_ledger_last_violation(void);
void     vp_ledger_disown_all(void);         /* drop the accounting WITHOUT freeing (blocks the core still references in fallback mode) */
void     vp_ledger_forget_all(void);         /* really free everything still live (between cases) */
int      vp_log_format_check(int on);        /* vsnprintf every log call (UB in format args visible) */
uint64_t vp_log_calls(void);

#ifdef __cplusplus
}
#endif
#endif
