/* Compiled against the working tree: builds network_interface_t records for the real os/linux/lltd_port.c and
 * provides the libc entry points that lltd_port.o is redirected to (objcopy --redefine-sym), so that no socket,
 * no interface list and no stderr output is needed. */
#include <ifaddrs.h>
#include <netinet/in.h>
#include <stdarg.h>
#include <stdio.h>
#include <stdlib.h>
#include <string.h>
#include <sys/socket.h>
#include <time.h>

#include "daemon/linux-main.h"

#ifndef IFM_FDX
#define IFM_FDX 0x0010   /* same fallback as os/linux/lltd_port.c */
#endif

typedef struct lp_sent { size_t len; unsigned char data[9300]; } lp_sent;
static lp_sent g_sent[8];
static int g_nsent;
static struct ifaddrs *g_ifaddrs;
static char g_hostname[300];
static int g_getifaddrs_fail;
static unsigned g_slept_ms;

void *lp_make_iface(const char *name, unsigned ifType, unsigned mediumType, unsigned mtu, unsigned linkSpeed, unsigned flags, const unsigned char mac[6], int sock, int ifclass) {
    network_interface_t *n = calloc(1, sizeof *n);
    n->interfaceType = ifclass;   /* bond / bridge / ethernet / 802.11 / VLAN: must not influence what the getters report */
    n->MapperKnown = 1; n->seeListCount = 77; n->MapperSeqNumber = 0x4242; n->helloSent = 1;   /* daemon bookkeeping fields the port must ignore */
    n->deviceName = strdup(name);
    n->ifType = ifType; n->MediumType = mediumType; n->MTU = mtu; n->LinkSpeed = linkSpeed; n->flags = flags; n->socket = sock;
    memcpy(n->macAddress, mac, 6);
    return n;
}
void lp_free_iface(void *p) { network_interface_t *n = p; free((void *)n->deviceName); free(n); }
unsigned lp_ifm_fdx(void) { return IFM_FDX; }
unsigned lp_iff_loopback(void) { return IFF_LOOPBACK; }
void lp_set_hostname(const char *h) { strncpy(g_hostname, h, sizeof g_hostname - 1); }
int lp_nsent(void) { return g_nsent; }
size_t lp_sent_len(int i) { return g_sent[i].len; }
const unsigned char *lp_sent_data(int i) { return g_sent[i].data; }
void lp_clear_sent(void) { g_nsent = 0; }
unsigned lp_slept_ms(void) { return g_slept_ms; }

/* interface address list handed out by lp_getifaddrs: entries (name, family, 4 or 16 address bytes) */
void lp_clear_addrs(void) {
    while (g_ifaddrs) { struct ifaddrs *n = g_ifaddrs->ifa_next; free(g_ifaddrs->ifa_name); free(g_ifaddrs->ifa_addr); free(g_ifaddrs); g_ifaddrs = n; }
    g_getifaddrs_fail = 0;
}
void lp_set_getifaddrs_fail(int f) { g_getifaddrs_fail = f; }
void lp_add_addr(const char *name, int v6, const unsigned char *bytes, int null_addr) {
    struct ifaddrs *e = calloc(1, sizeof *e), **tail = &g_ifaddrs;
    e->ifa_name = strdup(name);
    if (!null_addr) {
        if (v6) { struct sockaddr_in6 *s = calloc(1, sizeof *s); s->sin6_family = AF_INET6; memcpy(&s->sin6_addr, bytes, 16); e->ifa_addr = (struct sockaddr *)s; }
        else { struct sockaddr_in *s = calloc(1, sizeof *s); s->sin_family = AF_INET; memcpy(&s->sin_addr, bytes, 4); e->ifa_addr = (struct sockaddr *)s; }
    }
    while (*tail) tail = &(*tail)->ifa_next;
    *tail = e;
}

/* ---- redirected libc entry points (only lltd_port.o calls these) ---- */
ssize_t lp_sendto(int fd, const void *buf, size_t len, int flags, const struct sockaddr *to, socklen_t tolen) {
    (void)fd; (void)flags; (void)to; (void)tolen;
    if (g_nsent < 8 && len <= sizeof g_sent[0].data) { g_sent[g_nsent].len = len; memcpy(g_sent[g_nsent].data, buf, len); g_nsent++; }
    return (ssize_t)len;
}
int lp_getifaddrs(struct ifaddrs **out) {
    if (g_getifaddrs_fail) return -1;
    /* hand out a deep copy: the port frees it through lp_freeifaddrs */
    struct ifaddrs *head = NULL, **tail = &head;
    for (struct ifaddrs *c = g_ifaddrs; c; c = c->ifa_next) {
        struct ifaddrs *e = calloc(1, sizeof *e);
        e->ifa_name = strdup(c->ifa_name);
        if (c->ifa_addr) { size_t n = c->ifa_addr->sa_family == AF_INET6 ? sizeof(struct sockaddr_in6) : sizeof(struct sockaddr_in); e->ifa_addr = malloc(n); memcpy(e->ifa_addr, c->ifa_addr, n); }
        *tail = e; tail = &e->ifa_next;
    }
    *out = head;
    return 0;
}
void lp_freeifaddrs(struct ifaddrs *p) { while (p) { struct ifaddrs *n = p->ifa_next; free(p->ifa_name); free(p->ifa_addr); free(p); p = n; } }
int lp_nanosleep(const struct timespec *req, struct timespec *rem) { (void)rem; g_slept_ms += (unsigned)(req->tv_sec * 1000 + req->tv_nsec / 1000000); return 0; }
int lp_gethostname(char *name, size_t len) { strncpy(name, g_hostname, len); return 0; }
int lp_vfprintf(FILE *f, const char *fmt, va_list ap) { (void)f; char b[512]; return vsnprintf(b, sizeof b, fmt, ap); }
int lp_fputs(const char *s, FILE *f) { (void)s; (void)f; return 0; }
int lp_fputc(int c, FILE *f) { (void)f; return c; }
int lp_fflush(FILE *f) { (void)f; return 0; }
