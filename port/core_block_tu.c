/* Textually includes the working tree's lltdBlock.c (unmodified) and appends an accessor that forgets every
 * per-interface record, which a generated-case loop needs between cases. The compiled code of parseFrame and its
 * helpers is exactly the working tree's. The accessor relies on as little as possible: the list head
 * `g_iface_states` and the `next` link. What a record retains (observations, cached icon) is released beforehand by
 * the harness through the public behaviour (a topology Reset delivered to every interface), not through internals.
 * If this file does not compile against a refactored tree, the driver falls back to port/core_block_stub.c. */
#include "lltdBlock.c"

int verif_reset_level(void) { return 1; }

void verif_reset_iface_states(void) {
    lltd_iface_state *cur = g_iface_states;
    while (cur) {
        lltd_iface_state *next = cur->next;
        lltd_port_free(cur);
        cur = next;
    }
    g_iface_states = NULL;
}

size_t verif_iface_state_count(void) {
    size_t n = 0;
    for (lltd_iface_state *cur = g_iface_states; cur; cur = cur->next) n++;
    return n;
}
