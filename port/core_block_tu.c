/* Textually includes the working tree's lltdBlock.c (unmodified) and appends an accessor that
 * forgets every per-interface record, which a generated-case loop needs between cases.
 * The compiled code of parseFrame and its helpers is exactly the working tree's. */
#include "lltdBlock.c"

void verif_reset_iface_states(void) {
    lltd_iface_state *cur = g_iface_states;
    while (cur) {
        lltd_iface_state *next = cur->next;
        lltd_state_clear_seen_probes(cur);
        lltd_state_clear_icon_cache(cur);
        lltd_port_free(cur);
        cur = next;
    }
    g_iface_states = NULL;
}

size_t verif_iface_state_count(void) {
    size_t n = 0;
    for (lltd_iface_state *cur = g_iface_states; cur; cur = cur->next) n++;
    return n;
}
