/* Fallback used when core_block_tu.c does not compile against the tree under test (its per-interface bookkeeping was
 * refactored): lltdBlock.c is then compiled on its own and no record is ever forgotten. The harness copes by never
 * reusing an interface context address and by allowing one leftover record per interface in its leak oracles. */
#include <stddef.h>
int verif_reset_level(void) { return 0; }
void verif_reset_iface_states(void) {}
size_t verif_iface_state_count(void) { return 0; }
