// C08 — Large properties are retrievable byte-exactly by offset.
#include "hist.hpp"

enum { K_REASM = 30 };   // a: type, first seq

static Bytes pattern(size_t n, uint32_t salt) {   // position-dependent, so a shifted window cannot match by accident
    Bytes b(n);
    uint32_t x = salt * 2654435761u + 12345;
    for (size_t i = 0; i < n; i++) { x = x * 1103515245u + 12345u; b[i] = (uint8_t)((x >> 16) ^ (i * 7)); }
    return b;
}
static Bytes hwid_pattern(size_t units, uint32_t salt) {   // UCS-2LE without NUL unit
    Bytes b;
    for (size_t i = 0; i < units; i++) {
        // three kinds of code unit, never U+0000: ASCII (high byte 0), a unit whose LOW byte is 0 (U+0100, U+3000, U+4E00 ...), and one with both bytes set
        uint32_t mix = (uint32_t)(i + 1) * 2654435761u ^ (salt * 40503u + 0x9E37u); mix ^= mix >> 13; mix *= 0x5bd1e995u; mix ^= mix >> 15;
        unsigned kind = mix % 4;   // pseudo-random order, so that every kind follows every other kind somewhere
        uint8_t lo = (uint8_t)(0x21 + (i * 5 + salt) % 90), hi = (uint8_t)(1 + (i + salt) % 0x4E);
        if (kind <= 1) { b.push_back(lo); b.push_back(0x00); }
        else if (kind == 2) { b.push_back(0x00); b.push_back(hi); }
        else { b.push_back(lo); b.push_back(hi); }
    }
    return b;
}

// the relation for one response given candidate contents; "" if it holds for at least one candidate
static std::string check_resp(const std::vector<Ev> &tx, const std::vector<const Bytes *> &cands, size_t mtu, const Mac &own, const Mac &want_dst,
                              uint16_t seq, uint16_t offset, QLtResp *out) {
    if (seq == 0) return tx.empty() ? "" : "request with sequence number 0 was answered";
    if (tx.size() != 1) return fmt("%zu frames transmitted, expected exactly one QueryLargeTlvResp", tx.size());
    const Bytes &f = tx[0].data;
    Hdr hd;
    if (!dec_hdr(f, hd) || hd.op != OP_QLTRESP) return "reply is not a QueryLargeTlvResp";
    QLtResp q;
    std::string e = dec_qlt(f, q);
    if (!e.empty()) return e;
    if (f.size() > mtu) return fmt("response of %zu bytes exceeds MTU %zu", f.size(), mtu);
    if (hd.seq != seq) return fmt("response sequence number %u != request's %u", hd.seq, seq);
    if (hd.rsrc != own || hd.esrc != own) return "response not sourced from own address";
    if (hd.rdst != want_dst || hd.edst != want_dst) return fmt("response destination %s/%s, expected %s", hd.edst.str().c_str(), hd.rdst.str().c_str(), want_dst.str().c_str());
    if (hd.ethertype != 0x88D9 || hd.ver != 1 || hd.res != 0) return "base header malformed";
    if (out) *out = q;
    size_t pmax = mtu - 34;
    std::string last;
    for (const Bytes *d : cands) {
        size_t size = d ? d->size() : 0;
        size_t L = size > offset ? std::min(pmax, size - offset) : 0;
        bool more = (size_t)offset + L < size;
        if (q.len != L) { last = fmt("length %u, expected %zu (size %zu, offset %u, payload max %zu)", q.len, L, size, offset, pmax); continue; }
        if (q.more != more) { last = fmt("'more' flag %d, expected %d (size %zu, offset %u, length %zu)", q.more, more, size, offset, L); continue; }
        if (L && memcmp(q.payload.data(), d->data() + offset, L) != 0) { last = fmt("payload differs from the platform's bytes at offset %u (length %zu)", offset, L); continue; }
        return "";
    }
    return last;
}

static Verdict run(const Case &c) {
    Verdict v;
    HCfg h = HCfg::from_case(c);
    World w;
    h.apply_global(w);
    int ifi = w.add_if(h.ifcfg());
    Mac own = h.ownmac();
    Shadow sh;
    OtherIf oif;
    size_t pmax = h.mtu - 34;
    Bytes empty;
    Bytes cur_icon = h.icon_state ? h.icon : empty;
    bool icon_ok = h.icon_state && !(h.fail & VG_ICON);
    std::vector<Bytes> icon_cands = {icon_ok ? cur_icon : empty};
    Bytes friendly = (h.fail & VG_FRIENDLY) ? empty : h.friendly;
    Bytes hwid = (h.fail & VG_HWID) ? empty : h.hwid;
    if (hwid.size() > 64) hwid.resize(64);   // the core hands the platform a 64-byte buffer: at most 32 code units are retrievable
    int boundary_calls = 0, multi = 0, calls = 0, reasm = 0, icon_refetch = 0;
    auto cands_for = [&](uint8_t type) {
        std::vector<const Bytes *> r;
        if (type == 0x0E) for (auto &b : icon_cands) r.push_back(&b);
        else if (type == 0x11) r.push_back(&friendly);
        else if (type == 0x13) r.push_back(&hwid);
        else r.push_back(&empty);
        return r;
    };
    auto request = [&](int64_t st, uint16_t seq, uint8_t type, uint16_t off, uint8_t tos, QLtResp *out) -> std::string {
        Op op; op.kind = K_QLT; op.a = {st, seq, type, off, tos};
        Built b = build_frame(h, op, sh);
        std::vector<Ev> tx = sends_only(w.deliver(ifi, b.frame));
        Mac want = b.bridged ? BCAST : h.st_real(b.station);
        std::string e = check_resp(tx, cands_for(type), h.mtu, own, want, seq, off, out);
        if (seq != 0) shadow_update_sem(sh, SEM_COMMAND, b);
        calls++;
        auto cs = cands_for(type);
        size_t size = cs[0]->size();
        if (size > pmax) multi++;
        auto near = [&](size_t x) { return (size_t)off + 2 >= x && (size_t)off <= x + 2; };
        if (near(size) || (pmax && near((off / pmax) * pmax)) || near(((off / pmax) + 1) * pmax)) boundary_calls++;
        return e;
    };
    for (size_t i = 0; i < c.ops.size() && v.ok; i++) {
        const Op &op = c.ops[i];
        switch (op.kind) {
            case K_QLT: {
                std::string e = request(op.arg(0), (uint16_t)op.arg(1), (uint8_t)op.arg(2), (uint16_t)op.arg(3), (uint8_t)(op.arg(4) & 1), nullptr);
                if (!e.empty()) v.fail(fmt("step %zu: QueryLargeTlv type 0x%02x offset %u: %s", i, (unsigned)(uint8_t)op.arg(2), (unsigned)(uint16_t)op.arg(3), e.c_str()));
                // an icon request pins the candidate set to whatever was served (cache): keep all candidates, they stay legal until Reset
                break;
            }
            case K_REASM: {
                uint8_t type = (uint8_t)op.arg(0);
                uint16_t seq = (uint16_t)op.arg(1);
                if (!seq) seq = 1;
                auto cs = cands_for(type);
                Bytes got;
                size_t off = 0, maxsize = 0;
                for (auto *d : cs) maxsize = std::max(maxsize, d->size());
                bool done = false;
                for (size_t n = 0; n < maxsize + 2 && v.ok; n++) {
                    QLtResp q;
                    std::string e = request(-1, seq, type, (uint16_t)off, 0, &q);
                    if (!e.empty()) { v.fail(fmt("step %zu: reassembly of type 0x%02x at offset %zu: %s", i, type, off, e.c_str())); break; }
                    got.insert(got.end(), q.payload.begin(), q.payload.end());
                    if (!q.more) { done = true; break; }
                    if (q.len == 0) { v.fail(fmt("step %zu: 'more' set with empty payload at offset %zu", i, off)); break; }
                    off += q.len;
                    seq = (uint16_t)(seq == 0xFFFF ? 1 : seq + 1);
                    if (off > 0xFFFF) break;
                }
                if (v.ok) {
                    bool match = false;
                    for (auto *d : cs) if (*d == got) match = true;
                    if (!done) v.fail(fmt("step %zu: reassembly of type 0x%02x did not terminate", i, type));
                    else if (!match) v.fail(fmt("step %zu: reassembled %zu bytes of type 0x%02x differ from the platform's %zu bytes", i, got.size(), type, cs[0]->size()));
                    else reasm++;
                }
                break;
            }
            case K_SETICON:
                w.set_icon(op.blob); cur_icon = op.blob;
                icon_ok = !(h.fail & VG_ICON);                     // the platform now has an icon (unless its getter is made to fail)
                if (icon_ok) icon_cands.push_back(cur_icon);      // until a Reset either the cached or the new bytes may be served
                break;
            case K_ADVANCE: vp_set_now_ms(vp_now_ms() + (uint64_t)op.arg(0)); break;
            case K_OTHERIF: oif.step(w, h, op); break;   // the other interface serves (and forgets) the same large properties on its own
            default: {
                Built b = build_frame(h, op, sh);
                if (!b.is_frame) break;
                Sem sem = frame_sem(b.frame);
                if (sem == SEM_COMMAND && sh.active >= 0 && sh.active != b.station) break;
                (void)w.deliver(ifi, b.frame);
                if (sem == SEM_RESET && b.frame[15] == 0) { if (icon_cands.size() > 1) icon_refetch++; icon_cands = {icon_ok ? cur_icon : empty}; }
                shadow_update_sem(sh, sem, b);
            }
        }
    }
    v.nontrivial = calls > 0 && (multi > 0 || boundary_calls > 0);
    if (multi) v.cls("multi-chunk-size");
    if (boundary_calls) v.cls("boundary-offset");
    if (reasm) v.cls("reassembly");
    if (icon_refetch) v.cls("icon-changed-then-reset");
    return v;
}

// ---- fast grid over (size, offset) for one MTU and type 0x11 (friendly name): no rapidcheck, one World per size
static bool grid(const Args &a, Evidence &ev, size_t mtu, const std::vector<size_t> &sizes, bool all_offsets, const char *label) {
    size_t pmax = mtu - 34;
    uint64_t n = 0, nt = 0;
    for (size_t si = a.shard; si < sizes.size(); si += a.nshards) {
        size_t size = sizes[si];
        HCfg h; h.mtu = mtu; h.friendly = pattern(size, (uint32_t)size);
        World w;
        h.apply_global(w);
        int ifi = w.add_if(h.ifcfg());
        Mac own = h.ownmac(), m = h.st_real(0);
        (void)w.deliver(ifi, mk_discover(m, m, 0, 1, 1, {}));
        std::vector<uint32_t> offs;
        if (all_offsets) for (uint32_t o = 0; o <= 0xFFFF; o++) offs.push_back(o);
        else {
            std::set<uint32_t> s = {0, 1, 2, 0x7FFF, 0x8000, 0xFFFE, 0xFFFF};
            for (int d = -3; d <= 3; d++) {
                if ((long)size + d >= 0) s.insert((uint32_t)(size + d));
                for (size_t k = 1; k * pmax <= 0xFFFF + 3 && k <= 60; k++) if ((long)(k * pmax) + d >= 0) s.insert((uint32_t)(k * pmax + d));
                if (size >= pmax && (long)(size - pmax) + d >= 0) s.insert((uint32_t)(size - pmax + d));
            }
            for (auto o : s) if (o <= 0xFFFF) offs.push_back(o);
        }
        const Bytes &D = h.friendly;
        std::vector<const Bytes *> cands = {&D};
        Case cur; h.to_case(cur);     // kept current for the crash dump (a sanitizer abort bypasses the normal failure path)
        { Op d; d.kind = K_DISCOVER; d.a = {0, 0, 1, 1, 0, 0, -1}; cur.ops = {d}; }
        CurrentScope scope(cur, false);
        for (uint32_t off : offs) {
            { Op q; q.kind = K_QLT; q.a = {0, 7, 0x11, (int64_t)off, 0}; cur.ops.push_back(q); }   // the whole run of requests on this instance so far: a crash may need the earlier ones
            Bytes f = mk_qlt(own, m, own, m, 7, 0x11, (uint16_t)off, 0);
            std::vector<Ev> tx = sends_only(w.deliver(ifi, f));
            std::string e = check_resp(tx, cands, mtu, own, m, 7, (uint16_t)off, nullptr);
            n++;
            bool nontriv = size > pmax || (off + 2 >= size && off <= size + 2);
            if (nontriv) nt++;
            if (!e.empty()) {
                // the reproduction is the whole run of requests made on this instance so far (an answer may depend on the ones before it)
                write_file(a.failing, fmt("# c08-grid: size %zu offset %u mtu %zu: %s\n", size, off, mtu, e.c_str()) + cur.to_text());
                fprintf(stderr, "FAIL part=c08-grid size=%zu offset=%u mtu=%zu: %s\n", size, off, mtu, e.c_str());
                return false;
            }
        }
        if (si < 3 * (size_t)a.nshards) ev.note(fnv(&size, sizeof size, mtu), true, [&] { return fmt("grid mtu=%zu size=%zu offsets=%zu type=0x11", mtu, size, offs.size()); });
    }
    ev.count(std::string("c08-grid:") + label + ":calls", n);
    ev.count(std::string("c08-grid:") + label + ":nontrivial-calls", nt);
    ev.evaluations += n;
    return true;
}

int main(int argc, char **argv) {
    Args a = parse_args(argc, argv);
    if (!a.replay.empty()) return replay_case(a, run);
    zygote_start(run);   // before any code under test runs in this process
    Current::install(a.failing);
    Evidence ev;
    ev.rule = "(1) generated sequences on one instance: QueryLargeTlv(type from {0x0E,0x11,0x13, others}, offset from boundary dictionary around size and chunk multiples, seq incl. 0, "
              "direct/bridged mapper), icon swapped by the platform then Reset (cache invalidation), full reassembly by a model mapper; contents are position-dependent patterns. "
              "(2) grid for type 0x11: sizes x offsets enumerated for fixed MTUs (quick: boundary sizes x boundary offsets; thorough: every size 0..32768 x boundary offsets and boundary sizes x every offset 0..65535). "
              "non-trivial = size > payload max (multi-chunk) or offset within 2 of size or of a chunk boundary; distinct = digest of the case (grid: per size)";
    bool ok = true;
    // (2) grid
    for (size_t mtu : {(size_t)576, (size_t)1500, (size_t)9216}) {
        if (!ok) break;
        size_t pmax = mtu - 34;
        std::set<size_t> bs = {0, 1, 2, 32767, 32768};
        for (int k = 1; k <= 4; k++) for (int d = -2; d <= 2; d++) if ((long)k * (long)pmax + d >= 0 && k * pmax + d <= 32768) bs.insert(k * pmax + d);
        std::vector<size_t> bsz(bs.begin(), bs.end());
        ok = grid(a, ev, mtu, bsz, !a.quick(), a.quick() ? "boundary-sizes-x-boundary-offsets" : "boundary-sizes-x-all-offsets");
        if (ok && !a.quick()) {
            std::vector<size_t> all;
            for (size_t s = 0; s <= 32768; s++) all.push_back(s);
            ok = grid(a, ev, mtu, all, false, "all-sizes-x-boundary-offsets");
        }
    }
    // (1) generated sequences
    if (ok) {
        auto gen = rc::gen::exec([] {
            HCfg h = *hg::cfg_gen();
            size_t pmax = h.mtu - 34;
            auto size_gen = [&] {
                std::vector<int64_t> d = {0, 1, 2, 32767, 32768};
                for (int k = 1; k <= 4; k++) for (int x = -2; x <= 2; x++) { long s = (long)k * (long)pmax + x; if (s >= 0 && s <= 32768) d.push_back(s); }
                return gx::bnd(d, 0, 32768, 3, 1);
            };
            uint32_t salt = (uint32_t)*gx::range<int>(0, 1000000);
            h.icon = pattern((size_t)*size_gen(), salt);
            h.friendly = pattern((size_t)*size_gen(), salt + 1);
            h.hwid = hwid_pattern((size_t)*gx::bnd({0, 1, 31, 32, 33, 36}, 0, 40, 1, 1), salt);
            h.untrunc = (int)*gx::pick({0, 0, 1});
            h.icon_state = (int)*gx::pick({1, 1, 1, 1, 0});
            h.fail = (uint32_t)*gx::pick({0, 0, 0, 0, 0, 0, (int64_t)VG_ICON, (int64_t)VG_FRIENDLY, (int64_t)VG_HWID});
            Case c; h.to_case(c);
            Op d; d.kind = K_DISCOVER; d.a = {0, *gx::pick({0, 1}), 1, 1, *gx::pick({0, 0, 1}), 0, -1};
            c.ops.push_back(d);
            int n = *gx::range<int>(1, 14);
            auto steps = *rc::gen::resize(n, rc::gen::container<std::vector<Op>>(rc::gen::exec([=] {
                Op o;
                int k = *gx::range<int>(0, 11);
                if (k <= 6) {
                    uint8_t type = (uint8_t)*gx::weighted<int64_t>({{8, gx::pick({0x0E, 0x11, 0x13})}, {1, gx::range<int64_t>(0, 255)}});
                    size_t size = type == 0x0E ? h.icon.size() : type == 0x11 ? h.friendly.size() : type == 0x13 ? h.hwid.size() : 0;
                    std::vector<int64_t> od = {0, 1, 0xFFFF, (int64_t)size, (int64_t)size + 1, (int64_t)size - 1};
                    for (int j = 1; j <= 5; j++) for (int x = -1; x <= 1; x++) od.push_back((int64_t)j * (int64_t)pmax + x);
                    for (auto &x : od) x = std::max<int64_t>(0, std::min<int64_t>(x, 0xFFFF));
                    o.kind = K_QLT;
                    o.a = {*gx::pick({-1, -1, -1, 0, 1, 2}), *gx::bnd({0, 1, 0xFFFF}, 0, 0xFFFF, 1, 3), type, *gx::bnd(od, 0, 0xFFFF, 4, 1), *gx::pick({0, 0, 0, 1})};
                } else if (k <= 8) { o.kind = K_REASM; o.a = {*gx::pick({0x0E, 0x11, 0x13, 0x0E}), *hg::seq_gen()}; }
                else if (k == 9) { o.kind = K_SETICON; o.blob = pattern((size_t)*gx::bnd({1, (int64_t)pmax, (int64_t)pmax + 1}, 1, 3000, 1, 1), (uint32_t)*gx::range<int>(0, 99999)); }
                else if (k == 10) { o.kind = K_RESET; o.a = {0, *gx::pick({0, 0, 1}), 1}; }
                else if (k == 11 && *gx::chance(60)) { o.kind = K_OTHERIF; o.a = {*gx::pick({0, 0, 4, 4, 6, 1, 2, 3}), 0, *gx::pick({1, 3, 0x0101})}; }
                else { o.kind = K_DISCOVER; o.a = {0, *gx::pick({0, 1}), 1, 1, d.a[4], 0, -1}; }
                return o;
            })));
            c.ops.insert(c.ops.end(), steps.begin(), steps.end());
            return c;
        });
        ok = run_cases(a, ev, "c08-sequences", a.n(80000, 600000), 100, gen, run);
    }
    ev.write(a.out);
    return ok ? 0 : 1;
}
