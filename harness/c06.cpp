// C06 — An Emit is executed descriptor by descriptor and then acknowledged.
#include "hist.hpp"

// cfg part 0: well-formed Emits inside histories (clean delivery); part 1: over-declared counts (daemon delivery)
static Verdict run(const Case &c) {
    Verdict v;
    HCfg h = HCfg::from_case(c);
    World w;
    h.apply_global(w);
    int ifi = w.add_if(h.ifcfg());
    Mac own = h.ownmac();
    Shadow sh;
    OtherIf oif;
    size_t cap = (h.mtu - 34) / 14;
    std::set<uint64_t> paths;
    int checked = 0, maxn = 0;
    bool distinct2 = false, over = false;
    const std::vector<Op> ops = expand_repeats(c.ops);
    for (size_t i = 0; i < ops.size() && v.ok; i++) {
        const Op &op = ops[i];
        if (op.kind == K_ADVANCE) { vp_set_now_ms(vp_now_ms() + (uint64_t)op.arg(0)); continue; }
        if (op.kind == K_OTHERIF) { oif.step(w, h, op); continue; }
        Built b = build_frame(h, op, sh);
        if (!b.is_frame) continue;
        Sem sem = frame_sem(b.frame);
        if (sem == SEM_COMMAND && sh.active >= 0 && sh.active != b.station) continue;   // domain: commands from the active mapper
        bool declared_over = op.kind == K_EMIT && op.arg(2, -1) >= 0;
        std::vector<Ev> evs = w.deliver(ifi, b.frame, (declared_over || h.part == 1) ? DAEMON : CLEAN);
        bool by_active = op.kind == K_EMIT && (sh.active < 0 || sh.active == b.station);
        if (op.kind == K_EMIT && by_active && op.arg(1) != 0) {
            size_t n = std::min(op.blob.size() / 14, cap);
            Mac mreal = h.st_real(b.station);
            // apparent address of the mapper = Ethernet source of its session opener (or of this Emit when it opens the session)
            Mac mapp = (sh.active >= 0 ? sh.bridged : b.bridged) ? h.st_bridge(b.station) : mreal;
            // when this Emit arrives on another path than the session opener did, its own Ethernet source is as good an apparent address
            Mac emit_esrc = b.bridged ? h.st_bridge(b.station) : mreal;
            if (declared_over) {
                over = true;
                int probes = 0, acks = 0;
                for (auto &e : evs) if (e.kind != VE_SLEEP && e.data.size() >= 18) { if (e.data[17] == OP_PROBE || e.data[17] == OP_TRAIN) probes++; else if (e.data[17] == OP_ACK) acks++; }
                if ((size_t)probes > cap) v.fail(fmt("step %zu: Emit declaring %lld descriptors made the responder emit %d frames; a maximum-size Emit can request %zu", i, (long long)op.arg(2), probes, cap));
                if (acks > 1) v.fail(fmt("step %zu: %d ACKs for one Emit", i, acks));
            } else if (n >= 1) {
                checked++;
                maxn = std::max(maxn, (int)n);
                std::set<std::string> ds;
                for (size_t k = 0; k < n; k++) ds.insert(hex(&op.blob[k * 14], 14));
                if (ds.size() >= 2) distinct2 = true;
                // expected port-call trace: [sleep(p_k)] send(f_k) ... send(ack)
                size_t k = 0;
                uint64_t slept = 0;
                bool acked = false;
                for (auto &e : evs) {
                    if (!v.ok) break;
                    if (e.kind == VE_SLEEP) { slept += e.ms; continue; }
                    if (e.kind == VE_SEND_REFUSED) { v.fail("transmit refused without fault injection"); break; }
                    Hdr hd;
                    if (!dec_hdr(e.data, hd) || e.data.size() != 32) { v.fail(fmt("step %zu: transmitted frame %zu has %zu bytes, expected 32", i, k, e.data.size())); break; }
                    if (k < n) {
                        const uint8_t *d = &op.blob[k * 14];
                        Mac dsrc = getmac(d + 2), ddst = getmac(d + 8);
                        if (mac_to_u64(dsrc) == 0x0E0000000000ULL) dsrc = own;   // generator's sentinel for "the responder's own address"
                        if (mac_to_u64(ddst) == 0x0E0000000000ULL) ddst = own;
                        uint8_t want = d[0] == 1 ? OP_PROBE : OP_TRAIN;
                        if (hd.op != want) v.fail(fmt("step %zu: frame %zu has opcode %u, descriptor asks for %u", i, k, hd.op, want));
                        else if (slept != d[1]) v.fail(fmt("step %zu: frame %zu sent after pausing %llu ms, descriptor asks for %u", i, k, (unsigned long long)slept, d[1]));
                        else if (hd.esrc != dsrc || hd.edst != ddst) v.fail(fmt("step %zu: frame %zu Ethernet addresses %s>%s differ from descriptor %s>%s", i, k, hd.esrc.str().c_str(), hd.edst.str().c_str(), dsrc.str().c_str(), ddst.str().c_str()));
                        else if (hd.rsrc != own) v.fail(fmt("step %zu: frame %zu real source is not the own address", i, k));
                        else if (hd.ethertype != 0x88D9 || hd.ver != 1 || hd.res != 0 || hd.tos != 0) v.fail(fmt("step %zu: frame %zu base header malformed", i, k));
                    } else if (k == n) {
                        if (hd.op != OP_ACK) v.fail(fmt("step %zu: frame after the %zu emitted ones has opcode %u, expected ACK", i, n, hd.op));
                        else if (slept != 0) v.fail(fmt("step %zu: ACK delayed by %llu ms", i, (unsigned long long)slept));
                        else if (hd.esrc != own || hd.rsrc != own) v.fail(fmt("step %zu: ACK not sourced from own address", i));
                        else if (hd.rdst != mreal) v.fail(fmt("step %zu: ACK real destination %s is not the mapper %s", i, hd.rdst.str().c_str(), mreal.str().c_str()));
                        else if (hd.edst != mapp && hd.edst != emit_esrc && !paths.count(mac_to_u64(hd.edst))) v.fail(fmt("step %zu: ACK Ethernet destination %s is not the mapper's apparent address %s", i, hd.edst.str().c_str(), mapp.str().c_str()));
                        else if (hd.seq != (uint16_t)op.arg(1)) v.fail(fmt("step %zu: ACK sequence number %u != Emit's %u", i, hd.seq, (unsigned)(uint16_t)op.arg(1)));
                        else if (hd.ethertype != 0x88D9 || hd.ver != 1 || hd.res != 0 || hd.tos != 0) v.fail(fmt("step %zu: ACK base header malformed", i));
                        acked = true;
                    } else v.fail(fmt("step %zu: more than %zu+1 frames transmitted for an Emit with %zu descriptors", i, n, n));
                    k++;
                    slept = 0;
                }
                if (v.ok && k < n) v.fail(fmt("step %zu: only %zu of %zu requested frames were emitted", i, k, n));
                if (v.ok && !acked) v.fail(fmt("step %zu: Emit with %zu descriptors was not acknowledged", i, n));
            }
        }
        // Ethernet sources the (still or newly) active mapper has used in this session: each of them is an address under which it can be reached
        if (sem == SEM_RESET) paths.clear();
        else if ((sem == SEM_DISCOVER || sem == SEM_COMMAND) && b.frame.size() >= 12 && (sh.active < 0 || sh.active == b.station)) paths.insert(mac_to_u64(getmac(&b.frame[6])));
        shadow_update_sem(sh, sem, b);
    }
    v.nontrivial = (checked > 0 && maxn >= 2 && distinct2) || over;
    if (checked) v.cls(maxn == 1 ? "n=1" : maxn <= 5 ? "n=2-5" : maxn <= 50 ? "n=6-50" : "n>50");
    if (checked && (size_t)maxn == cap) v.cls("n=capacity");
    if (over) v.cls("over-declared");
    v.cls(h.mtu <= 577 ? "mtu-576" : h.mtu <= 1514 ? "mtu-1500" : "mtu-jumbo");
    return v;
}

static Bytes descs(size_t n, uint64_t salt) {
    Bytes b;
    for (size_t k = 0; k < n; k++) {
        uint64_t x = (k + 1) * 0x9E3779B97F4A7C15ULL + salt;
        b.push_back((uint8_t)(x >> 7 & 1));
        b.push_back((uint8_t)(k % 5 == 0 ? 0 : k % 7 == 0 ? 255 : (x >> 16) & 0xFF));
        Mac s = mac_from_u64(0x040000000000ULL | (x >> 20 & 0xFFFFFFFF)), d = mac_from_u64(0x060000000000ULL | (x >> 28 & 0xFFFFFFFF));
        b.insert(b.end(), s.b, s.b + 6); b.insert(b.end(), d.b, d.b + 6);
    }
    return b;
}

int main(int argc, char **argv) {
    Args a = parse_args(argc, argv);
    if (!a.replay.empty()) return replay_case(a, run);
    zygote_start(run);   // before any code under test runs in this process
    Current::install(a.failing);
    Evidence ev;
    ev.rule = "Emit with n descriptors (kind 0/1, pause 0..255 weighted on 0/255, arbitrary src/dst) from the active mapper (direct or bridged) inside generated histories; "
              "the port-call trace while handling it must be exactly [sleep(p_k)] send(f_k) ... send(ACK). Deterministic sweep over n (every n up to capacity for MTU 576; "
              "thorough: also 1500 and 9216). Over-declared counts (n+1, capacity+1, 0x7FFF, 0xFFFF) on a malloc(MTU) buffer: <= capacity frames, <= 1 ACK. "
              "non-trivial = n >= 2 with >= 2 distinct descriptors, or an over-declared count; distinct = digest of the case";
    bool ok = true;
    // deterministic n sweep
    std::vector<std::pair<size_t, size_t>> sweep;   // (mtu, n)
    for (size_t n = 1; n <= 38; n++) sweep.push_back({576, n});
    if (a.quick()) { for (size_t n : {103u, 104u}) sweep.push_back({1500, n}); for (size_t n : {655u, 656u}) sweep.push_back({9216, n}); }
    else { for (size_t n = 1; n <= 104; n++) sweep.push_back({1500, n}); for (size_t n = 1; n <= 656; n++) sweep.push_back({9216, n}); }
    // the capacity floor((MTU-34)/14) itself: maximum-size Emits (n = capacity, capacity-1) for a dense range of MTUs, every residue mod 14
    auto cap = [](size_t mtu) { return (mtu - 34) / 14; };
    for (size_t mtu = 576; mtu <= (a.quick() ? 660u : 9216u); mtu += (a.quick() || mtu < 2000) ? 1 : 7) { sweep.push_back({mtu, cap(mtu)}); sweep.push_back({mtu, cap(mtu) - 1}); }
    for (size_t mtu : {1280u, 1492u, 1500u, 1514u, 2304u, 4352u, 9000u, 9212u}) { sweep.push_back({mtu, cap(mtu)}); sweep.push_back({mtu, cap(mtu) - 1}); }
    for (size_t k = a.shard; k < sweep.size() && ok; k += a.nshards) {
        for (int bridged = 0; bridged < 2 && ok; bridged++) {
            HCfg h; h.mtu = sweep[k].first;
            Case c; h.to_case(c);
            Op d; d.kind = K_DISCOVER; d.a = {0, 0, 1, 1, bridged, 0, -1};
            Op e; e.kind = K_EMIT; e.a = {-1, 0x0102, -1}; e.blob = descs(sweep[k].second, a.seed);
            c.ops = {d, e};
            CurrentScope scope(c);
            Verdict v = run(c);
            ev.note(c.digest(), v.nontrivial && v.ok, [&] { return c.to_text().substr(0, 600); });
            ev.count("c06-sweep:cases");
            if (!v.ok) { write_file(a.failing, "# c06-sweep: " + v.why + "\n" + c.to_text()); fprintf(stderr, "FAIL part=c06-sweep %s\n", v.why.c_str()); ok = false; }
        }
    }
    // random: Emits inside histories
    if (ok) {
        HistWeights w;
        w.emit = 10; w.discover = 5; w.max_emit = 12; w.probe = 1; w.hello = 1; w.shell = 1; w.odd_tos = false; w.otherif = 1; w.repeat = 1;
        ok = run_cases(a, ev, "c06-histories", a.n(80000, 400000), 100, hg::hist_case(w, 2, 25), run);
    }
    // over-declared family
    if (ok) {
        auto gen = rc::gen::exec([] {
            HCfg h = *hg::cfg_gen();
            h.part = 1;
            Case c; h.to_case(c);
            size_t cap = (h.mtu - 34) / 14;
            Op d; d.kind = K_DISCOVER; d.a = {0, 0, 1, 1, *gx::pick({0, 1}), 0, -1};
            size_t n = (size_t)*gx::bnd({0, 1, 2, (int64_t)cap - 1, (int64_t)cap}, 0, (int64_t)cap, 2, 1);
            Op e; e.kind = K_EMIT;
            e.a = {-1, *hg::seq_gen(), *gx::pick({(int64_t)n + 1, (int64_t)cap + 1, 0x7FFF, 0xFFFF, 0x8000})};
            e.blob = descs(n, (uint64_t)*gx::range<int>(0, 1000));
            Op filler; filler.kind = K_RAW; filler.blob = *gx::bytes(0, 200);   // stale bytes in the daemon buffer
            c.ops = {d, filler, e};
            int more = *gx::pick({0, 0, 1, 2});   // further over-declared Emits in the same session (no Reset in between): each one is bounded like the first
            for (int k = 0; k < more; k++) { Op e2 = e; e2.a = {-1, *hg::seq_gen(), *gx::pick({(int64_t)cap + 1, 300, 0x7FFF, 0xFFFF})}; c.ops.push_back(e2); }
            return c;
        });
        ok = run_cases(a, ev, "c06-overdeclared", a.n(8000, 60000), 100, gen, run);
    }
    ev.write(a.out);
    return ok ? 0 : 1;
}
