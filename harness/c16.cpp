// C16 — The session table stays consistent under any sequence of operations (stateful, model-based).
#include "rcx.hpp"

// ops: 1 add(key, seq) 2 find(key, seq) 3 remove(key) 4 clear 5 set_complete(key, flag)+status update 6 tick 7 advance(s)
struct MEntry { uint16_t seq; bool complete; uint64_t last; };
using Key = std::pair<uint64_t, uint16_t>;   // (mac, generation)

static Key key_of(int k) { static const uint16_t gens[3] = {7, 0, 0x0101}; return {0x02AA00000000ULL + (uint64_t)(k % 8), gens[(k / 8) % 3]}; }   // 24 keys: 8 addresses x 3 generations (one of them 0)

static Verdict run(const Case &c) {
    Verdict v;
    World w;
    uint64_t now = 1000;   // seconds
    vp_set_now_ms(now * 1000);
    void *t = br_st_create();
    const int CAP = br_st_capacity();
    if (CAP != 16) v.fail(fmt("table capacity is %d, documented 16", CAP));
    std::map<Key, MEntry> model;
    int full_adds = 0, partial_expiries = 0, refreshes = 0, maxlive = 0;
    auto snapshot = [&] { return Bytes((const uint8_t *)br_st_raw(t), (const uint8_t *)br_st_raw(t) + br_st_sizeof()); };
    auto invariants = [&](size_t i, const char *after) {
        // number of valid entries == count == |model| <= 16 ; no duplicate keys ; fields match ; empty / all_complete flags
        std::map<Key, br_entry> live;
        int valid = 0;
        for (int k = 0; k < CAP; k++) {
            br_entry e; br_st_get(t, k, &e);
            if (!e.valid) continue;
            valid++;
            Key key = {mac_to_u64(getmac(e.mac)), e.generation};
            if (!live.insert({key, e}).second) { v.fail(fmt("step %zu (%s): two live entries for the same (mapper, generation)", i, after)); return; }
        }
        if (valid != (int)model.size()) { v.fail(fmt("step %zu (%s): %d live entries, model has %zu", i, after, valid, model.size())); return; }
        if ((int)br_st_count(t) != valid) { v.fail(fmt("step %zu (%s): count field %u != %d live entries", i, after, br_st_count(t), valid)); return; }
        if (valid > CAP) { v.fail("more live entries than capacity"); return; }
        bool allc = true;
        for (auto &kv : model) {
            auto it = live.find(kv.first);
            if (it == live.end()) { v.fail(fmt("step %zu (%s): session (%012llx, %u) missing", i, after, (unsigned long long)kv.first.first, kv.first.second)); return; }
            if (it->second.seq != kv.second.seq || (it->second.complete != 0) != kv.second.complete || it->second.last_activity != kv.second.last) {
                v.fail(fmt("step %zu (%s): session (%012llx, %u) has seq %u complete %d activity %llu, model says %u %d %llu", i, after, (unsigned long long)kv.first.first, kv.first.second,
                           it->second.seq, it->second.complete, (unsigned long long)it->second.last_activity, kv.second.seq, kv.second.complete, (unsigned long long)kv.second.last));
                return;
            }
            if (!kv.second.complete) allc = false;
        }
        if ((br_st_is_empty(t) != 0) != model.empty()) { v.fail(fmt("step %zu (%s): is_empty reports %d with %zu live sessions", i, after, br_st_is_empty(t), model.size())); return; }
        maxlive = std::max(maxlive, valid);
        (void)allc;
    };
    auto check_all_complete = [&](size_t i, const char *after) {   // meaningful right after a status update / add / remove / clear / tick
        bool allc = true;
        for (auto &kv : model) if (!kv.second.complete) allc = false;
        if ((br_st_all_complete(t) != 0) != allc) v.fail(fmt("step %zu (%s): all_complete reports %d, live sessions imply %d", i, after, br_st_all_complete(t), allc));
    };
    for (size_t i = 0; i < c.ops.size() && v.ok; i++) {
        const Op &op = c.ops[i];
        Key k = key_of((int)(op.arg(0) % 24 + 24) % 24);
        Mac m = mac_from_u64(k.first);
        uint16_t seq = (uint16_t)op.arg(1);
        switch (op.kind) {
            case 1: {
                Bytes before = snapshot();
                void *e = br_st_add(t, m.b, k.second, seq);
                auto it = model.find(k);
                if (it != model.end()) {
                    refreshes++;
                    if (!e) { v.fail(fmt("step %zu: adding a known session returned NULL", i)); break; }
                    it->second.seq = seq; it->second.last = now;
                } else if ((int)model.size() < CAP) {
                    if (!e) { v.fail(fmt("step %zu: add failed with %zu live sessions", i, model.size())); break; }
                    model[k] = MEntry{seq, false, now};
                    br_entry be; br_entry_get(e, &be);
                    if (!be.valid || be.complete || be.seq != seq || be.generation != k.second || getmac(be.mac) != m) v.fail(fmt("step %zu: returned entry does not describe the added session", i));
                } else {
                    full_adds++;
                    if (e) { v.fail(fmt("step %zu: add to a full table returned an entry", i)); break; }
                    if (snapshot() != before) { v.fail(fmt("step %zu: failed add disturbed the table", i)); break; }
                }
                invariants(i, "add");
                if (v.ok) check_all_complete(i, "add");
                break;
            }
            case 2: {
                void *e = br_st_find(t, m.b, k.second, seq);
                auto it = model.find(k);
                if ((e != nullptr) != (it != model.end())) { v.fail(fmt("step %zu: find returned %s, model %s", i, e ? "an entry" : "NULL", it != model.end() ? "has the session" : "does not have it")); break; }
                if (e) { br_entry be; br_entry_get(e, &be); if (be.seq != it->second.seq || getmac(be.mac) != m || be.generation != k.second || !be.valid) v.fail(fmt("step %zu: find returned a different session", i)); }
                invariants(i, "find");
                break;
            }
            case 3: br_st_remove(t, m.b, k.second); model.erase(k); invariants(i, "remove"); if (v.ok) check_all_complete(i, "remove"); break;
            case 4: br_st_clear(t); model.clear(); invariants(i, "clear"); if (v.ok) check_all_complete(i, "clear"); break;
            case 5: {
                void *e = br_st_find(t, m.b, k.second, 0);
                auto it = model.find(k);
                if ((e != nullptr) != (it != model.end())) { v.fail(fmt("step %zu: find disagrees with the model", i)); break; }
                if (e) { br_entry_set_complete(e, (int)(op.arg(1) & 1)); it->second.complete = op.arg(1) & 1; }
                br_st_update(t);
                invariants(i, "set_complete");
                if (v.ok) check_all_complete(i, "set_complete");
                break;
            }
            case 6: {
                br_tick(nullptr, nullptr, t, nullptr, nullptr, nullptr, 0);
                size_t before = model.size();
                for (auto it = model.begin(); it != model.end();) { if (now > it->second.last + 60) it = model.erase(it); else ++it; }
                if (model.size() < before && !model.empty()) partial_expiries++;
                invariants(i, "tick");
                if (v.ok) check_all_complete(i, "tick");
                break;
            }
            case 7: now += (uint64_t)std::max<int64_t>(0, std::min<int64_t>(op.arg(0), 200)); vp_set_now_ms(now * 1000); break;
            default: break;
        }
    }
    br_st_destroy(t);
    v.nontrivial = full_adds > 0 || partial_expiries > 0;
    if (full_adds) v.cls("add-to-full-table");
    if (partial_expiries) v.cls("partial-expiry");
    if (refreshes) v.cls("refresh");
    v.cls(fmt("maxlive-%s", maxlive == 16 ? "16" : maxlive >= 8 ? "8-15" : "0-7"));
    return v;
}

int main(int argc, char **argv) {
    Args a = parse_args(argc, argv);
    if (!a.replay.empty()) return replay_case(a, run);
    Current::install(a.failing);
    Evidence ev;
    ev.rule = "operation sequences (length <= 200) of add/find/remove/clear/set-complete+status-update/expiry-tick/clock advance 0..200 s (weights on 0,59,60,61,120) over 24 keys (8 addresses x generations {7, 0, 0x0101}), "
              "compared after every step with a dictionary model: live entries == count == |model| <= 16, unique keys, fields, is_empty, all_complete, failed add leaves the table bit-identical, expiry removes exactly the sessions idle > 60 s. "
              "non-trivial = sequence that attempted an add on a full table or had an expiry removing some but not all sessions; distinct = digest of the sequence";
    auto gen = rc::gen::exec([] {
        Case c;
        int n = *gx::pick({10, 40, 80, 200, 200});
        c.ops = *rc::gen::resize(n, rc::gen::container<std::vector<Op>>(rc::gen::exec([] {
            Op o;
            int k = *gx::range<int>(0, 19);
            int64_t key = *gx::range<int64_t>(0, 23);
            if (k <= 8) { o.kind = 1; o.a = {key, *gx::bnd({0, 1, 0xFFFF}, 0, 0xFFFF, 1, 1)}; }
            else if (k <= 10) { o.kind = 2; o.a = {key, *gx::range<int64_t>(0, 0xFFFF)}; }
            else if (k <= 12) { o.kind = 3; o.a = {key}; }
            else if (k == 13) { o.kind = *gx::chance(30) ? 4 : 2; o.a = {key, 0}; }
            else if (k <= 15) { o.kind = 5; o.a = {key, *gx::pick({0, 1, 1})}; }
            else if (k <= 17) { o.kind = 6; }
            else { o.kind = 7; o.a = {*gx::bnd({0, 1, 59, 60, 61, 120}, 0, 200, 3, 1)}; }
            return o;
        })));
        return c;
    });
    bool ok = run_cases(a, ev, "c16-sequences", a.n(40000, 1000000), 200, gen, run);
    ev.write(a.out);
    return ok ? 0 : 1;
}
