// C16 — The session table stays consistent under any sequence of operations (stateful, model-based).
#include "rcx.hpp"

// ops: 8 complete-all(flag, table) 1 add(key, seq, table) 2 find(key, seq, table) 3 remove(key, table) 4 clear(table) 5 set_complete(key, flag, table)+status update
//      6 tick(table) 7 advance(ms)            -- two independent tables: whatever one does must not influence the other
struct MEntry { uint16_t seq; bool complete; uint64_t last_ms; };
using Key = std::pair<uint64_t, uint16_t>;   // (mac, generation)

static Key key_of(int k) {
    // 8 addresses x 3 generations; the addresses include pairs that differ in a single byte (first, second, last), high bytes >= 0x80, all-ones-but-one and near-zero
    static const uint64_t macs[8] = {0x02AABB000001ULL, 0x03AABB000001ULL, 0x02ABBB000001ULL, 0x02AABB000002ULL, 0xFFFFFFFFFFFEULL, 0x000000000001ULL, 0x02AABBCCDDEEULL, 0x82AABBCCDDEEULL};
    static const uint16_t gens[3] = {7, 0, 0x0101};
    if (k >= 24) return {(k & 1) ? 0xFFFFFFFFFFFFULL : 0x000000000000ULL, gens[((k - 24) / 2) % 3]};   // the all-zero and the all-ones address are keys like any other
    return {macs[k % 8], gens[(k / 8) % 3]};
}

static Verdict run(const Case &c) {
    Verdict v;
    World w;
    uint64_t now = 1000000 + (uint64_t)(c.c(0) % 1000);   // milliseconds; the starting fraction of a second varies per case
    vp_set_now_ms(now);
    void *T[2] = {br_st_create(), br_st_create()};
    void *en = br_init_enumeration(), *mp = br_init_mapping();
    const int CAP = br_st_capacity();
    if (CAP != 16) v.fail(fmt("table capacity is %d, documented 16", CAP));
    std::map<Key, MEntry> M[2];
    int full_adds = 0, partial_expiries = 0, refreshes = 0, maxlive = 0, both_tables = 0;
    auto snapshot = [&](int t) { return Bytes((const uint8_t *)br_st_raw(T[t]), (const uint8_t *)br_st_raw(T[t]) + br_st_sizeof()); };
    auto invariants = [&](size_t i, const char *after) {
        for (int tb = 0; tb < 2 && v.ok; tb++) {
            void *t = T[tb];
            auto &model = M[tb];
            std::map<Key, br_entry> live;
            int valid = 0;
            for (int k = 0; k < CAP; k++) {
                br_entry e; br_st_get(t, k, &e);
                if (!e.valid) continue;
                valid++;
                Key key = {mac_to_u64(getmac(e.mac)), e.generation};
                if (!live.insert({key, e}).second) { v.fail(fmt("step %zu (%s): table %d has two live entries for the same (mapper, generation)", i, after, tb)); return; }
            }
            if (valid != (int)model.size()) { v.fail(fmt("step %zu (%s): table %d has %d live entries, model has %zu", i, after, tb, valid, model.size())); return; }
            if ((int)br_st_count(t) != valid) { v.fail(fmt("step %zu (%s): table %d count field %u != %d live entries", i, after, tb, br_st_count(t), valid)); return; }
            for (auto &kv : model) {
                auto it = live.find(kv.first);
                if (it == live.end()) { v.fail(fmt("step %zu (%s): table %d: session (%012llx, %u) missing", i, after, tb, (unsigned long long)kv.first.first, kv.first.second)); return; }
                if (it->second.seq != kv.second.seq || (it->second.complete != 0) != kv.second.complete || it->second.last_activity != kv.second.last_ms / 1000) {
                    v.fail(fmt("step %zu (%s): table %d: session (%012llx, %u) has seq %u complete %d activity %llu s, model says %u %d %llu s", i, after, tb, (unsigned long long)kv.first.first, kv.first.second,
                               it->second.seq, it->second.complete, (unsigned long long)it->second.last_activity, kv.second.seq, kv.second.complete, (unsigned long long)(kv.second.last_ms / 1000)));
                    return;
                }
            }
            if ((br_st_is_empty(t) != 0) != model.empty()) { v.fail(fmt("step %zu (%s): table %d: is_empty reports %d with %zu live sessions", i, after, tb, br_st_is_empty(t), model.size())); return; }
            maxlive = std::max(maxlive, valid);
        }
        if (!M[0].empty() && !M[1].empty()) both_tables = 1;
    };
    auto check_all_complete = [&](size_t i, const char *after, int tb) {
        bool allc = true;
        for (auto &kv : M[tb]) if (!kv.second.complete) allc = false;
        if ((br_st_all_complete(T[tb]) != 0) != allc) v.fail(fmt("step %zu (%s): table %d: all_complete reports %d, live sessions imply %d", i, after, tb, br_st_all_complete(T[tb]), allc));
    };
    for (size_t i = 0; i < c.ops.size() && v.ok; i++) {
        const Op &op = c.ops[i];
        Key k = key_of((int)(op.arg(0) % 30 + 30) % 30);
        Mac m = mac_from_u64(k.first);
        uint16_t seq = (uint16_t)op.arg(1);
        int tb = (int)(op.arg(2) & 1);
        void *t = T[tb];
        auto &model = M[tb];
        switch (op.kind) {
            case 1: {
                Bytes before = snapshot(tb), other_before = snapshot(1 - tb);
                void *e = br_st_add(t, m.b, k.second, seq);
                auto it = model.find(k);
                if (it != model.end()) {
                    refreshes++;
                    if (!e) { v.fail(fmt("step %zu: adding a known session returned NULL", i)); break; }
                    it->second.seq = seq; it->second.last_ms = now;
                } else if ((int)model.size() < CAP) {
                    if (!e) { v.fail(fmt("step %zu: add failed with %zu live sessions", i, model.size())); break; }
                    model[k] = MEntry{seq, false, now};
                    br_entry be; br_entry_get(e, &be);
                    if (!be.valid || be.complete || be.seq != seq || be.generation != k.second || getmac(be.mac) != m) v.fail(fmt("step %zu: returned entry does not describe the added session", i));
                } else {
                    full_adds++;
                    if (e) { v.fail(fmt("step %zu: add to a full table returned an entry", i)); break; }
                    if (snapshot(tb) != before) { v.fail(fmt("step %zu: failed add disturbed the table", i)); break; }
                }
                if (v.ok && snapshot(1 - tb) != other_before) v.fail(fmt("step %zu: add on table %d changed table %d", i, tb, 1 - tb));
                invariants(i, "add");
                if (v.ok) check_all_complete(i, "add", tb);
                break;
            }
            case 2: {
                void *e = br_st_find(t, m.b, k.second, seq);
                auto it = model.find(k);
                if ((e != nullptr) != (it != model.end())) { v.fail(fmt("step %zu: find returned %s, model %s", i, e ? "an entry" : "NULL", it != model.end() ? "has the session" : "does not have it")); break; }
                if (e) { br_entry be; br_entry_get(e, &be); if (be.seq != it->second.seq || getmac(be.mac) != m || be.generation != k.second || !be.valid) v.fail(fmt("step %zu: find returned a different session", i)); }
                invariants(i, "find");
                break;
            }
            case 3: br_st_remove(t, m.b, k.second); model.erase(k); invariants(i, "remove"); if (v.ok) check_all_complete(i, "remove", tb); break;
            case 4: br_st_clear(t); model.clear(); invariants(i, "clear"); if (v.ok) check_all_complete(i, "clear", tb); break;
            case 5: {
                void *e = br_st_find(t, m.b, k.second, 0);
                auto it = model.find(k);
                if ((e != nullptr) != (it != model.end())) { v.fail(fmt("step %zu: find disagrees with the model", i)); break; }
                if (e) { br_entry_set_complete(e, (int)(op.arg(1) & 1)); it->second.complete = op.arg(1) & 1; }
                br_st_update(t);
                invariants(i, "set_complete");
                if (v.ok) check_all_complete(i, "set_complete", tb);
                break;
            }
            case 8: {   // every live session of this table is acknowledged at once (a[1] = 1) or none is any more (0), then the status update
                for (int idx = 0; idx < CAP; idx++) {
                    br_entry be; br_st_get(t, idx, &be);
                    if (!be.valid) continue;
                    void *e = br_st_find(t, be.mac, be.generation, be.seq);
                    if (e) br_entry_set_complete(e, (int)(op.arg(1) & 1));
                }
                for (auto &kv : model) kv.second.complete = op.arg(1) & 1;
                br_st_update(t);
                invariants(i, "complete-all");
                if (v.ok) check_all_complete(i, "complete-all", tb);
                break;
            }
            case 6: {
                // the tick is handed the interface's other engines as the daemons do - in whatever state they are (a[0]: RepeatBand -1 none / 0 Quiescent /
                // 1 Pausing / 2 Wait; a[1]: mapping -1 none / 0 / 1 / 2, its inactivity deadline not armed): the table's expiry does not depend on them
                void *en_arg = nullptr, *mp_arg = nullptr;
                if (op.arg(0) >= 1 && op.arg(0) <= 3) { br_aut_set_state(en, (int)op.arg(0) - 1); en_arg = en; }
                if (op.arg(1) >= 1 && op.arg(1) <= 3) { br_aut_set_state(mp, (int)op.arg(1) - 1); mp_arg = mp; }
                { uint64_t last_tx = 0; int user = 1; br_tick(mp_arg, en_arg, t, &user, &last_tx, [](void *) {}, en_arg ? 1 : 0); }
                size_t before = model.size();
                for (auto it = model.begin(); it != model.end() && v.ok;) {
                    uint64_t idle = now - it->second.last_ms;
                    Mac mm = mac_from_u64(it->first.first);
                    bool there = br_st_find(t, mm.b, it->first.second, 0) != nullptr;
                    // idle <= 60 s: must survive; idle >= 61 s: must be gone; in between (one-second granularity of the table's clock) either
                    if (idle <= 60000 && !there) { v.fail(fmt("step %zu (tick): table %d: session idle for %llu ms was removed (only sessions idle for more than 60 s may be)", i, tb, (unsigned long long)idle)); break; }
                    if (idle >= 61000 && there) { v.fail(fmt("step %zu (tick): table %d: session idle for %llu ms survived the tick", i, tb, (unsigned long long)idle)); break; }
                    if (!there) it = model.erase(it); else ++it;
                }
                if (model.size() < before && !model.empty()) partial_expiries++;
                if (v.ok) invariants(i, "tick");
                if (v.ok) check_all_complete(i, "tick", tb);
                break;
            }
            case 7: now += (uint64_t)std::max<int64_t>(0, std::min<int64_t>(op.arg(0), 200000)); vp_set_now_ms(now); break;
            default: break;
        }
    }
    br_st_destroy(T[0]); br_st_destroy(T[1]);
    br_automata_destroy(en); br_automata_destroy(mp);
    v.nontrivial = full_adds > 0 || partial_expiries > 0;
    if (full_adds) v.cls("add-to-full-table");
    if (partial_expiries) v.cls("partial-expiry");
    if (refreshes) v.cls("refresh");
    if (both_tables) v.cls("both-tables-populated");
    v.cls(fmt("maxlive-%s", maxlive == 16 ? "16" : maxlive >= 8 ? "8-15" : "0-7"));
    return v;
}

int main(int argc, char **argv) {
    Args a = parse_args(argc, argv);
    if (!a.replay.empty()) return replay_case(a, run);
    zygote_start(run);   // before any code under test runs in this process
    Current::install(a.failing);
    Evidence ev;
    ev.rule = "operation sequences (length <= 200) of add/find/remove/clear/set-complete+status-update/expiry-tick/clock advance 0..200 s in milliseconds (weights on the 59/60/61 s boundaries) over 30 keys (8 structured addresses plus all-zero and all-ones x generations {7, 0, 0x0101}) on TWO independent tables, "
              "compared after every step with a dictionary model per table: live entries == count == |model| <= 16, unique keys, fields, is_empty, all_complete, failed add leaves the table bit-identical, a tick removes no session idle <= 60 s and every session idle >= 61 s (the table's clock has one-second granularity), and never touches the other table. "
              "non-trivial = sequence that attempted an add on a full table or had an expiry removing some but not all sessions; distinct = digest of the sequence";
    auto gen = rc::gen::exec([] {
        Case c;
        c.cfg = {*gx::range<int64_t>(0, 999)};
        int n = *gx::pick({10, 40, 80, 200, 200});
        c.ops = *rc::gen::resize(n, rc::gen::container<std::vector<Op>>(rc::gen::exec([] {
            Op o;
            int k = *gx::range<int>(0, 19);
            int64_t key = *gx::range<int64_t>(0, 29), tb = *gx::pick({0, 0, 0, 1});
            if (k <= 8) { o.kind = 1; o.a = {key, *gx::bnd({0, 1, 0xFFFF}, 0, 0xFFFF, 1, 1), tb}; }
            else if (k <= 10) { o.kind = 2; o.a = {key, *gx::range<int64_t>(0, 0xFFFF), tb}; }
            else if (k <= 12) { o.kind = 3; o.a = {key, 0, tb}; }
            else if (k == 13) { o.kind = *gx::chance(30) ? 4 : 2; o.a = {key, 0, tb}; }
            else if (k == 14) { o.kind = *gx::chance(35) ? 8 : 5; o.a = {key, *gx::pick({0, 1, 1, 1}), tb}; }
            else if (k <= 15) { o.kind = 5; o.a = {key, *gx::pick({0, 1, 1}), tb}; }
            else if (k <= 17) { o.kind = 6; o.a = {*gx::pick({0, 0, 1, 1, 2, 3}), *gx::pick({0, 0, 1, 2, 3}), tb}; }
            else { o.kind = 7; o.a = {*gx::bnd({0, 1, 999, 1000, 59000, 59999, 60000, 60001, 60999, 61000, 61001, 120000}, 0, 200000, 3, 1)}; }
            return o;
        })));
        return c;
    });
    bool ok = run_cases(a, ev, "c16-sequences", a.n(120000, 1500000), 200, gen, run);
    ev.write(a.out);
    return ok ? 0 : 1;
}
