// C14 — The mapping engine follows its state machine and times out.
#include "rcx.hpp"

// reference transition table transcribed from the statement (0 Idle, 1 Command, 2 Emit)
static int table_next(int st, int input) {
    if (st == 0) return input == 0 ? 1 : 0;                              // Discover opens a session
    if (st == 1) return input == 2 ? 2 : (input == 8 || input == -1) ? 0 : 1;   // Emit / Reset / timeout event
    if (st == 2) return input == -3 ? 1 : (input == 8 || input == -1) ? 0 : 2;  // emission complete / Reset / timeout event
    return st;
}

static void *fresh(int st) {   // automaton driven into st by legal inputs (clock must be set by the caller beforehand)
    void *a = br_init_mapping();
    if (st >= 1) br_switch_mapping(a, 0);
    if (st == 2) br_switch_mapping(a, 2);
    return a;
}

// part 0: single step. cfg: [0]=0, [1] start state, [2] input, [3] elapsed seconds
static Verdict run_step(const Case &c) {
    Verdict v;
    World w;
    int st = (int)std::max<int64_t>(0, std::min<int64_t>(c.c(1), 2)), input = (int)c.c(2);
    uint64_t el = (uint64_t)std::max<int64_t>(0, c.c(3));
    vp_set_now_ms(100000);
    void *a = fresh(st);
    if (br_aut_state(a) != st) { v.fail(fmt("legal inputs did not drive a fresh automaton into state %d (is %d)", st, br_aut_state(a))); br_automata_destroy(a); return v; }
    int t = br_aut_timeout(a, st);
    if (st == 0 && t != 0) v.fail(fmt("idle state has timeout %d", t));
    if (st != 0 && (t <= 0 || t > 30)) v.fail(fmt("active state %d has timeout %d, expected 1..30 s", st, t));
    vp_set_now_ms(100000 + el * 1000);
    int got = br_switch_mapping(a, input);
    bool timed_out = st != 0 && (int64_t)el > t;
    if (v.ok) {
        if (timed_out) {
            bool ok = got == 0 || (got == 1 && input == 0);
            if (!ok) v.fail(fmt("state %d idle for %llu s (timeout %d s), input %d: went to state %d, expected Idle%s", st, (unsigned long long)el, t, input, got, input == 0 ? " or Command" : ""));
        } else {
            int want = table_next(st, input);
            if (got != want) v.fail(fmt("state %d, input %d, %llu s after the last input (timeout %d s): went to state %d, expected %d", st, input, (unsigned long long)el, t, got, want));
        }
        if (v.ok && br_aut_last_ts(a) != (100000 + el * 1000) / 1000) v.fail("time of last input not updated");
    }
    br_automata_destroy(a);
    v.nontrivial = timed_out || (!timed_out && table_next(st, input) != st) || (st != 0 && ((int64_t)el == t || (int64_t)el == t + 1));
    v.cls(timed_out ? "pre-empted-by-timeout" : table_next(st, input) != st ? "state-changing-cell" : "unchanged-cell");
    return v;
}

// part 1: histories through the Darwin frame flow + ticks, on one to three interfaces side by side (each daemon thread owns its engine).
// cfg: [0]=1 [1] engines ; ops: kind 1 frame (a: opcode, engine), 2 advance (a: seconds), 3 tick (a: engine, or -1: every engine in turn), 4 engine input that is not a frame (a: input, engine)
static void noop_hello(void *) {}
struct Eng {
    br_darwin d{};
    IfCfg ic;
    int ifi = 0;
    int st = 0;                 // model state (refined by observation where the statement allows two outcomes)
    uint64_t last_input = 0;    // time of the last mapping input (frame, or tick-driven timeout event)
    int64_t last_frame = -1;    // time of the last received frame; -1: none since the last tick-driven session end
    unsigned ctc = 0; int64_t charge_deadline = -1;
};
static Verdict run_hist(const Case &c) {
    Verdict v;
    World w;
    int k = (int)std::max<int64_t>(1, std::min<int64_t>(c.c(1, 1), 3));
    uint64_t now = 50;   // seconds
    vp_set_now_ms(now * 1000);
    std::vector<Eng> E((size_t)k);
    for (int x = 0; x < k; x++) {
        Eng &e = E[(size_t)x];
        e.ic.mac = mac_from_u64(0x020000000001ULL + (uint64_t)x);
        e.ifi = w.add_if(e.ic);
        memcpy(e.d.mac, e.ic.mac.b, 6);
        e.d.ctx = w.ctx(e.ifi); e.d.send_hello = noop_hello; e.d.user = nullptr; e.d.call_parse_frame = 1;
        e.last_input = now;
        if (br_darwin_init(&e.d) != 0) { v.fail("constructors failed"); for (int y = 0; y < x; y++) br_darwin_destroy(&E[(size_t)y].d); return v; }
    }
    int t1 = br_aut_timeout(E[0].d.mapping, 1), t2 = br_aut_timeout(E[0].d.mapping, 2);
    int tick_ends = 0, early_ticks = 0, ends_beside_active = 0;
    Mac m = {{2, 0xAA, 0, 0, 0, 1}};
    auto others_unmoved = [&](size_t i, int x) {
        for (int y = 0; y < k && v.ok; y++)
            if (y != x && br_aut_state(E[(size_t)y].d.mapping) != E[(size_t)y].st)
                v.fail(fmt("step %zu: input for interface %d moved the mapping engine of interface %d from state %d to %d", i, x, y, E[(size_t)y].st, br_aut_state(E[(size_t)y].d.mapping)));
    };
    auto tick_one = [&](size_t i, int x) {
        Eng &e = E[(size_t)x];
        br_darwin &d = e.d;
        int before = br_aut_state(d.mapping);
        br_darwin_idle_tick(&d);
        (void)drain_log();
        int got = br_aut_state(d.mapping);
        br_mapst ms; br_mapst_get(br_aut_extra(d.mapping), &ms);
        if (e.last_frame >= 0) {
            int64_t silent = (int64_t)now - e.last_frame;
            if (silent >= 31 || (silent == 30 && got == 0 && ms.inactive_ts == 0 && before != 0)) {
                if (silent >= 31) {
                    if (got != 0) v.fail(fmt("step %zu: interface %d: %lld s without a frame, tick left mapping state %d", i, x, (long long)silent, got));
                    else if (ms.ctc != 0 || ms.charge_ts != 0) v.fail(fmt("step %zu: interface %d: tick ended the session but charge counter is %u (deadline %llu)", i, x, ms.ctc, (unsigned long long)ms.charge_ts));
                    else if (!br_st_is_empty(d.table)) v.fail(fmt("step %zu: interface %d: tick ended the session but the session table still holds %u entries", i, x, br_st_count(d.table)));
                }
                if (v.ok) {
                    if (e.st != 0) { tick_ends++; for (int y = 0; y < k; y++) if (y != x && E[(size_t)y].st != 0) { ends_beside_active++; break; } }
                    e.st = 0; e.ctc = 0; e.charge_deadline = -1; e.last_frame = -1; e.last_input = now;
                }
            } else if (silent == 30) {
                // exactly 30 s: either outcome is accepted; follow the implementation
                if (ms.inactive_ts == 0) {
                    e.st = 0; e.ctc = 0; e.charge_deadline = -1; e.last_frame = -1; e.last_input = now;
                    if (got != 0) v.fail(fmt("step %zu: inactivity deadline consumed but state is %d", i, got));
                    else if (ms.ctc != 0) v.fail(fmt("step %zu: the tick ended the session (deadline consumed) but the charge counter is %u", i, ms.ctc));
                    else if (!br_st_is_empty(d.table)) v.fail(fmt("step %zu: the tick ended the session (deadline consumed) but the session table still holds %u session(s)", i, br_st_count(d.table)));
                }
                else if (got != before) v.fail(fmt("step %zu: tick changed the mapping state %d -> %d without ending the session", i, before, got));
            } else {
                early_ticks++;
                if (got != before) v.fail(fmt("step %zu: tick %lld s after the last frame changed the mapping state %d -> %d", i, (long long)silent, before, got));
            }
        } else if (got != before) v.fail(fmt("step %zu: tick without any frame changed the mapping state %d -> %d", i, before, got));
        if (v.ok && e.charge_deadline >= 0 && (int64_t)now >= e.charge_deadline) { e.ctc = 0; e.charge_deadline = -1; }
        if (v.ok) {
            br_mapst_get(br_aut_extra(d.mapping), &ms);
            if (ms.ctc != e.ctc) v.fail(fmt("step %zu: interface %d: charge counter %u, expected %u", i, x, ms.ctc, e.ctc));
        }
        if (v.ok) others_unmoved(i, x);
    };
    for (size_t i = 0; i < c.ops.size() && v.ok; i++) {
        const Op &op = c.ops[i];
        if (op.kind == 2) { now += (uint64_t)std::max<int64_t>(0, std::min<int64_t>(op.arg(0), 200)); vp_set_now_ms(now * 1000); continue; }
        if (op.kind == 1) {
            int x = (int)(((op.arg(1) % k) + k) % k);
            Eng &e = E[(size_t)x];
            int opc = (int)op.arg(0) & 0xFF;
            Bytes f = opc == 0 ? mk_discover(m, m, 0, 1, 1, {}) : mk_simple(e.ic.mac, m, 0, (uint8_t)opc, e.ic.mac, m, 1);
            uint8_t *tf;
            uint8_t *b = w.stage(e.ifi, f, CLEAN, &tf);
            br_darwin_rx(&e.d, b, f.size());
            free(tf);
            (void)drain_log();
            int tmo = e.st == 1 ? t1 : e.st == 2 ? t2 : 0;
            int got = br_aut_state(e.d.mapping);
            if (e.st != 0 && (int64_t)(now - e.last_input) > tmo) {
                if (!(got == 0 || (got == 1 && opc == 0))) v.fail(fmt("step %zu: state %d idle for %llu s (timeout %d), frame opcode %d: state %d", i, e.st, (unsigned long long)(now - e.last_input), tmo, opc, got));
            } else {
                int want = table_next(e.st, opc > 127 ? 999 : opc);
                if (got != want) v.fail(fmt("step %zu: state %d, frame opcode %d: state %d, expected %d", i, e.st, opc, got, want));
            }
            e.st = got;
            e.last_input = now; e.last_frame = (int64_t)now;
            if (opc == 9) { e.ctc = (e.ctc + 1) & 0xFF; e.charge_deadline = (int64_t)now + 1; }
            // the trailing tick of the frame flow runs at the same instant: cannot end the session (0 s since this frame) but may reset an old charge
            if (e.charge_deadline >= 0 && (int64_t)now >= e.charge_deadline && opc != 9) { e.ctc = 0; e.charge_deadline = -1; }
            if (v.ok) others_unmoved(i, x);
        } else if (op.kind == 4) {   // an engine input that is not a received frame (emission progress -2 / completion -3): moves the state by the table, does not count as traffic
            int x = (int)(((op.arg(1) % k) + k) % k);
            Eng &e = E[(size_t)x];
            int in = (int)op.arg(0);
            int tmo = e.st == 1 ? t1 : e.st == 2 ? t2 : 0;
            int got = br_switch_mapping(e.d.mapping, in);
            if (e.st != 0 && (int64_t)(now - e.last_input) > tmo) {
                if (got != 0) v.fail(fmt("step %zu: state %d idle for %llu s (timeout %d), engine input %d: state %d", i, e.st, (unsigned long long)(now - e.last_input), tmo, in, got));
            } else if (got != table_next(e.st, in)) v.fail(fmt("step %zu: state %d, engine input %d: state %d, expected %d", i, e.st, in, got, table_next(e.st, in)));
            e.st = got; e.last_input = now;
            if (v.ok) others_unmoved(i, x);
        } else if (op.kind == 3) {
            if (op.arg(0) < 0) { for (int x = 0; x < k && v.ok; x++) tick_one(i, x); }
            else tick_one(i, (int)(op.arg(0) % k));
        }
    }
    for (int x = 0; x < k; x++) br_darwin_destroy(&E[(size_t)x].d);
    v.nontrivial = tick_ends > 0;
    if (tick_ends) v.cls("tick-driven-session-end");
    if (ends_beside_active) v.cls("session-end-while-another-interface-is-active");
    if (early_ticks) v.cls("early-tick");
    v.cls(fmt("engines=%d", k));
    return v;
}

// part 2: the 30 s rule through the primitive API (no frame flow): cfg [0]=2 [1] state [2] sessions in the table [3] charges [4] silence s
static Verdict run_tick30(const Case &c) {
    Verdict v;
    World w;
    int st = (int)std::max<int64_t>(0, std::min<int64_t>(c.c(1), 2)), nsess = (int)std::max<int64_t>(0, std::min<int64_t>(c.c(2), 16)), charges = (int)std::max<int64_t>(0, std::min<int64_t>(c.c(3), 5));
    int64_t silence = std::max<int64_t>(0, c.c(4));
    vp_set_now_ms(100000);
    void *a = fresh(st), *t = br_st_create();
    void *ms = br_aut_extra(a);
    for (int i = 0; i < nsess; i++) { Mac m = mac_from_u64(0x02AA00000000ULL + (uint64_t)i); br_st_add(t, m.b, 1, 1); }
    int64_t gone = c.c(5, 0);   // sessions that ended earlier (bit i: the i-th one was removed again), so the table has gaps
    int live = 0;
    for (int i = 0; i < nsess; i++) { Mac m = mac_from_u64(0x02AA00000000ULL + (uint64_t)i); if ((gone >> i) & 1) br_st_remove(t, m.b, 1); else live++; }
    for (int i = 0; i < charges; i++) br_mapping_on_charge(ms);
    br_mapping_reset_inactive_timeout(ms);                 // "a frame was received now"
    vp_set_now_ms(100000 + (uint64_t)silence * 1000);
    int before = br_aut_state(a);
    br_tick(a, nullptr, t, nullptr, nullptr, nullptr, 0);
    br_mapst m2; br_mapst_get(ms, &m2);
    int got = br_aut_state(a);
    // sessions added "now" cannot have expired by the 60 s rule unless silence > 60
    if (silence >= 31) {
        if (got != 0) v.fail(fmt("state %d, %lld s without a frame: the tick left the mapping state %d", st, (long long)silence, got));
        else if (m2.ctc != 0 || m2.charge_ts != 0) v.fail(fmt("%lld s without a frame: charge counter still %u", (long long)silence, m2.ctc));
        else if (!br_st_is_empty(t)) v.fail(fmt("mapping state %d, %lld s without a frame: the session table still holds %u session(s) after the tick", st, (long long)silence, br_st_count(t)));
        else {   // empty means empty: no session can be looked up any more, no slot is in use
            for (int i = 0; i < nsess && v.ok; i++) {
                Mac m = mac_from_u64(0x02AA00000000ULL + (uint64_t)i);
                if (br_st_find(t, m.b, 1, 1)) v.fail(fmt("%lld s without a frame: the table reports empty but session %d of %d (sessions removed earlier: mask 0x%llx) can still be looked up", (long long)silence, i, nsess, (unsigned long long)gone));
            }
            for (int i = 0; i < br_st_capacity() && v.ok; i++) { br_entry e; br_st_get(t, i, &e); if (e.valid) v.fail(fmt("%lld s without a frame: the table reports empty but slot %d is still in use", (long long)silence, i)); }
        }
    } else if (silence <= 29) {
        if (got != before) v.fail(fmt("tick %lld s after the last frame changed the mapping state %d -> %d", (long long)silence, before, got));
        else if ((int)br_st_count(t) != live) v.fail(fmt("tick %lld s after the last frame emptied the session table", (long long)silence));
        else if (silence == 0 && (int)m2.ctc != charges) v.fail("tick at the instant of the charge reset the counter");
    }
    br_st_destroy(t);
    br_automata_destroy(a);
    v.nontrivial = silence >= 31 && (nsess > 0 || charges > 0 || st != 0);
    if (gone && live) v.cls("tick30-table-with-gaps");
    v.cls(silence >= 31 ? "tick30-must-end" : silence <= 29 ? "tick30-must-not-end" : "tick30-boundary");
    return v;
}

// part 3: single steps on a millisecond clock. cfg: [0]=3 [1] state [2] input [3] elapsed ms [4] phase of the start within its second (ms)
// The engine reads whole seconds: idle <= t s must not count as timed out, idle >= t+1 s must, in between either.
static Verdict run_step_ms(const Case &c) {
    Verdict v;
    World w;
    int st = (int)std::max<int64_t>(0, std::min<int64_t>(c.c(1), 2)), input = (int)c.c(2);
    uint64_t el = (uint64_t)std::max<int64_t>(0, c.c(3)), base = 100000 + (uint64_t)(c.c(4) % 1000);
    vp_set_now_ms(base);
    void *a = fresh(st);
    if (br_aut_state(a) != st) { v.fail("legal inputs did not drive a fresh automaton into the start state"); br_automata_destroy(a); return v; }
    int t = br_aut_timeout(a, st);
    vp_set_now_ms(base + el);
    int got = br_switch_mapping(a, input);
    bool must = st != 0 && el >= (uint64_t)(t + 1) * 1000, may = st != 0 && el > (uint64_t)t * 1000;
    bool ok_plain = got == table_next(st, input), ok_timed = got == 0 || (got == 1 && input == 0);
    if (must ? !ok_timed : may ? !(ok_plain || ok_timed) : !ok_plain)
        v.fail(fmt("state %d, input %d, %llu ms after the last input (timeout %d s, start %llu ms into its second): went to state %d, expected %s", st, input, (unsigned long long)el, t, (unsigned long long)(base % 1000), got,
                   must ? "Idle (timed out)" : may ? "the table's state or Idle" : fmt("%d (no timeout yet)", table_next(st, input)).c_str()));
    br_automata_destroy(a);
    v.nontrivial = st != 0 && (el + 1500 >= (uint64_t)t * 1000 && el <= (uint64_t)(t + 1) * 1000 + 500);
    v.cls(must ? "ms:timed-out" : may ? "ms:either" : "ms:in-time");
    return v;
}

static Verdict run(const Case &c) { return c.c(0) == 1 ? run_hist(c) : c.c(0) == 2 ? run_tick30(c) : c.c(0) == 3 ? run_step_ms(c) : run_step(c); }

int main(int argc, char **argv) {
    Args a = parse_args(argc, argv);
    if (!a.replay.empty()) return replay_case(a, run);
    zygote_start(run);   // before any code under test runs in this process
    Current::install(a.failing);
    Evidence ev;
    ev.rule = "(1) exhaustive single steps: 3 states x inputs -128..255 x elapsed {0, t-1, t, t+1, 10t} s (Idle: {0,1,5,31,300}) from a fresh automaton driven into the start state by legal inputs, "
              "judged by the transition table of the statement. (1b) the 30 s rule through the primitive API: 3 states x {0,1,5,16} sessions (none / the first / every other / all but the last removed again beforehand) x {0,3} charges x silence {0,1,29,30,31,45,60,61,120} s; an emptied table has no session that can be looked up and no slot in use. (2) random histories of frames (all opcodes)/whole-second clock advances/ticks through the transcribed Darwin frame flow on one to three interfaces side by side (one engine each; an input for one never moves another): state after each frame, "
              "tick-driven session end after >= 31 s of silence (state Idle, charge counter 0, session table empty), no state change by earlier ticks, charge counter bookkeeping. "
              "non-trivial = step whose expected state differs or a timeout boundary; histories: >= 1 tick-driven session end; distinct = digest of the case";
    bool ok = true;
    {
        World w0;
        vp_set_now_ms(1000);
        void *a0 = br_init_mapping();
        int tm[3] = {0, br_aut_timeout(a0, 1), br_aut_timeout(a0, 2)};
        br_automata_destroy(a0);
        long k = 0;
        for (int st = 0; st < 3 && ok; st++)
            for (int input = -128; input <= 255 && ok; input++) {
                std::vector<int64_t> els = st == 0 ? std::vector<int64_t>{0, 1, 5, 31, 300} : std::vector<int64_t>{0, tm[st] - 1, tm[st], tm[st] + 1, 10 * (int64_t)tm[st], 32767, 32768, 65536 + 2, 2147483648LL, 4294967296LL + 3};
                for (int64_t el : els) {
                    if (k++ % a.nshards != a.shard) continue;
                    Case c; c.cfg = {0, st, input, std::max<int64_t>(0, el)};
                    CurrentScope scope(c);
                    Verdict v = run(c);
                    ev.note(c.digest(), v.nontrivial && v.ok, [&] { return c.to_text(); });
                    for (auto &x : v.classes) ev.count("c14-steps:" + x);
                    if (!v.ok) { write_file(a.failing, "# c14-steps: " + v.why + "\n" + c.to_text()); fprintf(stderr, "FAIL part=c14-steps %s\n", v.why.c_str()); ok = false; break; }
                }
            }
        ev.extra["single_steps_exhaustive"] = "true";
        // the 30 s rule through the primitive API: every start state x table filling x charge count x silence
        for (int st = 0; st < 3 && ok; st++) for (int ns : {0, 1, 5, 16}) for (int ch : {0, 3}) for (int sil : {0, 1, 29, 30, 31, 45, 60, 61, 120}) for (int64_t gone : {(int64_t)0, (int64_t)1, (int64_t)0x5555, (int64_t)((1 << std::max(0, ns - 1)) - 1)}) {
            if (!ok || (gone != 0 && ns < 2) || k++ % a.nshards != a.shard) continue;
            Case c; c.cfg = {2, st, ns, ch, sil, gone};
            CurrentScope scope(c);
            Verdict v = run(c);
            ev.note(c.digest(), v.nontrivial && v.ok, [&] { return c.to_text(); });
            for (auto &x : v.classes) ev.count("c14-tick30:" + x);
            if (!v.ok) { write_file(a.failing, "# c14-tick30: " + v.why + "\n" + c.to_text()); fprintf(stderr, "FAIL part=c14-tick30 %s\n", v.why.c_str()); ok = false; }
        }
    }
    if (ok) {
        auto gen = rc::gen::exec([] {
            Case c; c.cfg = {1, *gx::pick({1, 1, 2, 2, 3})};
            int n = *gx::range<int>(1, 60);
            c.ops = *rc::gen::resize(n, rc::gen::container<std::vector<Op>>(rc::gen::exec([] {
                Op o;
                int k = *gx::range<int>(0, 9);
                if (k <= 4) { o.kind = 1; o.a = {*gx::weighted<int64_t>({{6, gx::pick({0, 2, 8, 9, 4, 6, 11})}, {2, gx::range<int64_t>(0, 12)}, {1, gx::range<int64_t>(0, 255)}}), *gx::range<int64_t>(0, 2)}; }
                else if (k <= 7) { o.kind = 2; o.a = {*gx::bnd({0, 1, 4, 5, 6, 29, 30, 31, 60, 61}, 0, 120, 3, 1)}; }
                else if (k == 8) { o.kind = 3; o.a = {*gx::pick({-1, -1, 0, 1, 2})}; }
                else if (*gx::chance(70)) { o.kind = 3; o.a = {*gx::pick({-1, -1, 0, 1, 2})}; }
                else { o.kind = 4; o.a = {*gx::pick({-2, -2, -3}), *gx::range<int64_t>(0, 2)}; }
                return o;
            })));
            return c;
        });
        ok = run_cases(a, ev, "c14-histories", a.n(240000, 1500000), 100, gen, run);
    }
    if (ok) {
        auto genms = rc::gen::exec([] {
            Case c;
            int64_t st = *gx::pick({1, 1, 2, 2, 0});
            int64_t t = st == 1 ? 5 : st == 2 ? 30 : 0;
            c.cfg = {3, st, *gx::weighted<int64_t>({{5, gx::pick({0, 2, 8, -1, -2, -3, 4, 9})}, {1, gx::range<int64_t>(-128, 255)}}),
                     std::max<int64_t>(0, t * 1000 + *gx::pick({-5000, -1500, -1000, -999, -600, -500, -400, -1, 0, 1, 400, 500, 600, 999, 1000, 1001, 1500, 5000})), *gx::pick({0, 1, 100, 400, 500, 600, 900, 999})};
            return c;
        });
        ok = run_cases(a, ev, "c14-steps-ms", a.n(60000, 400000), 100, genms, run);
    }
    ev.write(a.out);
    return ok ? 0 : 1;
}
