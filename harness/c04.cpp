// C04 (part 1) — Hello properties faithfully encode the interface's attributes (core encoders, through a real Hello).
#include "rcx.hpp"

// cfg: [0] flags16 [1] iftype [2] ipv4 (as wire bytes b0<<24..b3) [3] speed [4] wifi [5] wifi_mode [6] rate [7] rssi (-128..127) [8] fail mask [9] untrunc
//      [10] mac [11] bssid [12] mtu [13] tos ; blobs: hostname, ssid, ipv6(16)
static Verdict run_once(const Case &c, World &w, int *ifi_io, int round);

// cfg[14] = what happens between the first and a second Discover on the same instance: 0 nothing more, 1 attributes change,
//           2 attributes change + quick-discovery Reset, 3 attributes change + topology Reset
static Verdict run(const Case &c) {
    World w;
    int ifi = -1;
    Verdict v = run_once(c, w, &ifi, 0);
    int mode = (int)c.c(14);
    if (v.ok && mode) {
        Case c2 = c;   // second attribute tuple derived from the first: every field changes
        c2.cfg[0] = (c.c(0) ^ 0x2800) & 0xFFFF; c2.cfg[1] = (c.c(1) + 0x01020304) & 0xFFFFFFFFLL; c2.cfg[2] = (c.c(2) ^ 0x0F0F0F0FLL) & 0xFFFFFFFFLL;
        c2.cfg[3] = (c.c(3) + 0x00010001) & 0xFFFFFFFFLL; c2.cfg[5] = (c.c(5) + 1) & 0xFF; c2.cfg[6] = (c.c(6) + 0x0101) & 0xFFFF; c2.cfg[7] = -c.c(7) / 2 - 1;
        c2.cfg[11] = c.c(11) ^ 0x00FF00FF00FFLL;
        if (c.c(10) != 0 && c.c(10) != 0xFFFFFFFFFFFFLL) c2.cfg[10] = c.c(10) ^ 0x0000FF00FF00LL;   // the platform may also change the hardware address
        for (size_t b = 0; b < c2.blobs.size(); b++) { for (auto &x : c2.blobs[b]) x = (uint8_t)(x + 1); if (b < 2) { if (c2.blobs[b].size() > 3) c2.blobs[b].resize(c2.blobs[b].size() - 2); else c2.blobs[b].push_back(0x5A); } }
        Mac m = {{2, 0xAA, 0, 0, 0, 1}};
        Mac own = mac_from_u64((uint64_t)c.c(10, 0x020000000001LL));
        if (mode == 2) (void)w.deliver(ifi, mk_simple(BCAST, m, 1, OP_RESET, BCAST, m, 0));
        if (mode == 3) (void)w.deliver(ifi, mk_simple(BCAST, m, 0, OP_RESET, BCAST, m, 0));
        (void)own;
        Verdict v2 = run_once(c2, w, &ifi, 1);
        if (!v2.ok) { v2.why = "second Hello of the same instance after the interface's attributes changed: " + v2.why; return v2; }
        v.cls(fmt("second-round-mode-%d", mode));
    }
    return v;
}

static Verdict run_once(const Case &c, World &w, int *ifi_io, int round) {
    Verdict v;
    IfCfg ic;
    ic.mtu = (size_t)std::max<int64_t>(576, std::min<int64_t>(c.c(12, 1500), 9216));
    ic.flags = (uint32_t)c.c(0) & 0xFFFF; ic.iftype = (uint32_t)c.c(1); ic.speed = (uint32_t)c.c(3);
    uint32_t ip = (uint32_t)c.c(2);
    uint8_t ipb[4] = {(uint8_t)(ip >> 24), (uint8_t)(ip >> 16), (uint8_t)(ip >> 8), (uint8_t)ip};
    memcpy(&ic.ipv4, ipb, 4);
    ic.wifi = (int)(c.c(4) & 1); ic.wifi_mode = (uint8_t)c.c(5); ic.rate = (uint16_t)c.c(6); ic.rssi = (int8_t)c.c(7);
    ic.fail = (uint32_t)c.c(8) & 0xFFFF; ic.ssid_untrunc = (int)(c.c(9) & 1);
    ic.mac = mac_from_u64((uint64_t)c.c(10, 0x020000000001LL)); ic.bssid = mac_from_u64((uint64_t)c.c(11, 0x0A0102030405LL));
    Bytes hostname = c.blobs.size() > 0 ? c.blobs[0] : Bytes(), ssid = c.blobs.size() > 1 ? c.blobs[1] : Bytes(), ip6 = c.blobs.size() > 2 ? c.blobs[2] : Bytes();
    ip6.resize(16, 0);
    memcpy(ic.ipv6, ip6.data(), 16);
    ic.ssid = ssid;
    w.set_hostname(hostname, (int)(c.c(9) & 1));
    vp_global()->fail = (uint32_t)c.c(8) & 0xFFFF0000u;
    int ifi;
    if (round == 0) { ifi = w.add_if(ic); *ifi_io = ifi; }
    else { ifi = *ifi_io; size_t keep = w.ctx(ifi)->mtu; ic.mtu = keep; ic.apply(w.ctx(ifi), ifi); }   // same interface context, new attribute values (MTU and address stay)
    // cfg[16]: the host has a second interface with quite different attributes (wired, universally administered address, addresses set) that has already
    // answered a Discover of its own: a Hello describes the interface it is sent on, whatever its siblings look like and whichever of its own getters fail
    if (c.c(16) && round == 0) {
        IfCfg sib;
        sib.mac = mac_from_u64(0x001B21AABB00ULL + (uint64_t)(c.c(16) & 0xFF)); sib.wifi = 0; sib.ipv4 = 0x0A141E28; sib.iftype = 6; sib.speed = 1234567; sib.flags = 0x2000;
        for (int k = 0; k < 16; k++) sib.ipv6[k] = (uint8_t)(0x20 + k);
        int sidx = w.add_if(sib);
        Mac ms = {{2, 0xAA, 0, 0, 0, 1}};
        (void)w.deliver(sidx, mk_discover(ms, ms, 0, 1, 1, {}));
    }
    Mac m = {{2, 0xAA, 0, 0, 0, 1}};
    // cfg[15]: the Hello under examination is not the first one - the same mapper's Discover of the OTHER service (generation cfg[15]) was answered just before,
    // without a Reset in between; the properties describe the interface, not the history
    if (c.c(15) > 0 && round == 0) (void)w.deliver(ifi, mk_discover(m, m, (uint8_t)((c.c(13) & 1) ^ 1), 1, (uint16_t)c.c(15), {}));
    std::vector<Ev> tx = sends_only(w.deliver(ifi, mk_discover(m, m, (uint8_t)(c.c(13) & 1), 1, 1, {})));
    if (tx.size() != 1) { v.fail(fmt("Discover answered by %zu frames", tx.size())); return v; }
    Hello h;
    std::string e = dec_hello(tx[0].data, h);
    if (!e.empty()) { v.fail("Hello malformed: " + e); return v; }
    uint32_t F = ic.fail, GF = vp_global()->fail;
    auto tlv = [&](uint8_t t) { return find_tlv(h, t); };
    auto be32 = [](uint32_t x) { return Bytes{(uint8_t)(x >> 24), (uint8_t)(x >> 16), (uint8_t)(x >> 8), (uint8_t)x}; };
    // a failing getter must yield an absent property or the all-zero value, nothing else
    auto expect = [&](uint8_t type, const Bytes &want, bool getter_failed, const char *name) {
        if (!v.ok) return;
        const Tlv *t = tlv(type);
        if (getter_failed) {
            if (t) for (auto b : t->val) if (b) { v.fail(fmt("%s getter failed but property 0x%02x carries %s", name, type, hex(t->val).c_str())); return; }
            return;
        }
        if (!t) { v.fail(fmt("property 0x%02x (%s) missing", type, name)); return; }
        if (t->val != want) v.fail(fmt("property 0x%02x (%s) is %s, expected %s", type, name, hex(t->val).c_str(), hex(want).c_str()));
    };
    expect(0x01, Bytes(ic.mac.b, ic.mac.b + 6), F & VF_MAC, "hardware address");
    expect(0x02, be32(ic.flags << 16), false, "characteristics");
    expect(0x03, be32(ic.iftype), F & VF_IFTYPE, "interface type");
    expect(0x07, Bytes(ipb, ipb + 4), F & VF_IPV4, "IPv4 address");
    expect(0x08, ip6, F & VF_IPV6, "IPv6 address");
    expect(0x0C, be32(ic.speed), F & VF_SPEED, "link speed");
    expect(0x0F, Bytes(hostname.begin(), hostname.begin() + std::min<size_t>(hostname.size(), 32)), GF & VG_HOSTNAME, "machine name");
    expect(0x0A, Bytes{0, 0, 0, 0, 0x00, 0x0F, 0x42, 0x40}, false, "performance counter frequency");
    expect(0x14, be32(0xE0000000u), false, "QoS characteristics");
    if (ic.wifi) {
        expect(0x04, Bytes{ic.wifi_mode}, false, "wireless mode");
        expect(0x05, Bytes(ic.bssid.b, ic.bssid.b + 6), F & VF_BSSID, "BSSID");
        expect(0x06, Bytes(ssid.begin(), ssid.begin() + std::min<size_t>(ssid.size(), 32)), F & VF_SSID, "SSID");
        expect(0x09, Bytes{(uint8_t)(ic.rate >> 8), (uint8_t)ic.rate}, F & VF_RATE, "maximum rate");
        expect(0x0D, be32((uint32_t)(int32_t)ic.rssi), F & VF_RSSI, "signal strength");
    } else {
        for (uint8_t t : {0x04, 0x05, 0x06, 0x09, 0x0D}) if (v.ok && tlv(t)) v.fail(fmt("wired interface but Hello carries wireless property 0x%02x", t));
    }
    // non-trivial: >= 3 multi-byte fields whose bytes are pairwise different, or a name longer than 32
    auto distinct_bytes = [](uint32_t x) { std::set<uint8_t> s = {(uint8_t)x, (uint8_t)(x >> 8), (uint8_t)(x >> 16), (uint8_t)(x >> 24)}; return s.size() == 4; };
    int d = distinct_bytes(ic.iftype) + distinct_bytes(ip) + distinct_bytes(ic.speed) + ((ic.flags >> 8) != (ic.flags & 0xFF)) + (ic.wifi && (ic.rate >> 8) != (ic.rate & 0xFF));
    v.nontrivial = d >= 3 || hostname.size() > 32 || (ic.wifi && ssid.size() > 32);
    if (ic.wifi) v.cls("wifi");
    if (ic.wifi && ic.rssi < 0) v.cls("negative-rssi");
    if (F | GF) v.cls("failing-getter");
    v.cls(hostname.size() > 32 ? "hostname>32" : hostname.size() == 32 ? "hostname=32" : "hostname<32");
    return v;
}

static bool one(const Args &a, Evidence &ev, Case c, const char *part) {
    CurrentScope scope(c);
    Verdict v = run(c);
    ev.note(c.digest(), v.nontrivial && v.ok, [&] { return c.to_text(); });
    ev.count(std::string(part) + ":cases");
    if (!v.ok) { write_file(a.failing, std::string("# ") + part + ": " + v.why + "\n" + c.to_text()); fprintf(stderr, "FAIL part=%s %s\n", part, v.why.c_str()); return false; }
    return true;
}
static Bytes distinct_bytes(size_t n, uint8_t salt) { Bytes b(n); for (size_t i = 0; i < n; i++) b[i] = (uint8_t)(0x21 + (i * 3 + salt) % 90); return b; }

int main(int argc, char **argv) {
    Args a = parse_args(argc, argv);
    if (!a.replay.empty()) return replay_case(a, run);
    zygote_start(run);   // before any code under test runs in this process
    Current::install(a.failing);
    Evidence ev;
    ev.rule = "attribute tuples: MAC (random, zero, broadcast), flags in 2^16, ifType/IPv4/speed in 2^32 with byte-boundary dictionary, IPv6 16 random bytes, hostname and SSID of every length 0..40 with distinct bytes "
              "(full 41x41 grid), every RSSI -128..127, rate in 2^16, wired/Wi-Fi, every getter failing independently, both length-return conventions; a Discover is sent and the Hello decoded independently, property by property. "
              "non-trivial = >= 3 multi-byte fields with pairwise different bytes or a name/SSID longer than 32; distinct = digest of the tuple";
    bool ok = true;
    std::vector<int64_t> base = {0x2000, 6, 0x0A0B0C0D, 0x00989680, 1, 2, 0x0123, -60, 0, 0, 0x02AABBCCDDEELL, 0x0A1122334455LL, 1500, 0, 0};
    long k = 0;
    for (size_t hl = 0; hl <= 40 && ok; hl++)
        for (size_t sl = 0; sl <= 40 && ok; sl++) {
            if (k++ % a.nshards != a.shard) continue;
            Case c; c.cfg = base; c.cfg[9] = (hl + sl) & 1; c.cfg[14] = (hl * 41 + sl) % 4;
            c.blobs = {distinct_bytes(hl, 1), distinct_bytes(sl, 7), distinct_bytes(16, 3)};
            ok = one(a, ev, c, "c04-length-grid");
        }
    for (int r = -128; r <= 127 && ok; r++) {
        if (k++ % a.nshards != a.shard) continue;
        Case c; c.cfg = base; c.cfg[7] = r; c.blobs = {distinct_bytes(5, 1), distinct_bytes(5, 2), distinct_bytes(16, 3)};
        ok = one(a, ev, c, "c04-all-rssi");
    }
    if (ok) {
        std::vector<int64_t> d32 = {0, 1, 0x7F, 0x80, 0xFF, 0x100, 0x7FFF, 0x8000, 0xFFFF, 0x10000, 0x7FFFFFFF, 0x80000000LL, 0xFFFFFFFFLL, 0x01020304};
        auto gen = rc::gen::exec([=] {
            Case c;
            auto g32 = [&] { return gx::bnd(d32, 0, 0xFFFFFFFFLL, 1, 1); };
            int64_t fail = 0;
            if (*gx::chance(30)) {
                static const int64_t bits[] = {VF_MAC, VF_IFTYPE, VF_IPV4, VF_IPV6, VF_SPEED, VF_BSSID, VF_SSID, VF_RATE, VF_RSSI, VG_HOSTNAME};
                int n = *gx::range<int>(1, 3);
                for (int i = 0; i < n; i++) fail |= bits[*gx::range<int>(0, 9)];
            }
            c.cfg = {*gx::bnd({0, 1, 0x2000, 0x0800, 0x8000, 0xFFFF, 0x0102}, 0, 0xFFFF, 1, 1), *g32(), *g32(), *g32(), *gx::pick({0, 1, 1}), *gx::range<int64_t>(0, 255),
                     *gx::bnd({0, 1, 0xFF, 0x100, 0xFFFF, 0x0102}, 0, 0xFFFF, 1, 1), *gx::range<int64_t>(-128, 127), fail, *gx::pick({0, 1}),
                     *gx::weighted<int64_t>({{1, gx::pick({0, 0xFFFFFFFFFFFFLL})}, {6, gx::range<int64_t>(1, 0xFFFFFFFFFFFELL)}}), *gx::weighted<int64_t>({{1, gx::pick({0, 0xFFFFFFFFFFFFLL, 1, 0xFFFFFFFFFFFELL, 0x0000FF000000LL})}, {5, gx::range<int64_t>(0, 0xFFFFFFFFFFFFLL)}}),   // BSSID: every value the platform reports is encoded, all-zero and all-ones included
                    
                     *gx::pick({576, 1500, 9216}), *gx::pick({0, 1}), *gx::pick({0, 0, 1, 2, 3}), *gx::pick({0, 0, 0, 1, 5, 0xFFFF}), *gx::pick({0, 0, 1, 2})};
            c.blobs = {*gx::bytes(0, 40), *gx::bytes(0, 40), *gx::bytes(16, 16)};
            // values that mean something elsewhere must still be encoded as they are: IANA interface types (24 = software loopback, 6, 71, 53, 131 ...)
            if (*gx::chance(15)) c.cfg[1] = *gx::pick({1, 6, 23, 24, 24, 53, 71, 131, 144, 161, 209, 243});
            // names that are well-formed UTF-8 with a multi-byte character straddling the 32-octet limit (the field is cut at 32 octets, not at a character)
            if (*gx::chance(10)) {
                auto utf8 = [&](size_t lead_ascii) {
                    Bytes b(lead_ascii, 'h');
                    static const std::vector<Bytes> chars = {{0xC3, 0xA9}, {0xE2, 0x82, 0xAC}, {0xF0, 0x9F, 0x98, 0x80}, {0xD0, 0x96}};
                    while (b.size() < 40) { const Bytes &ch = chars[(b.size() + lead_ascii) % chars.size()]; b.insert(b.end(), ch.begin(), ch.end()); }
                    b.resize(33 + (b.size() % 7));
                    return b;
                };
                size_t lead = (size_t)*gx::range<int>(24, 31);
                if (*gx::chance(50)) c.blobs[0] = utf8(lead); else c.blobs[1] = utf8(lead);
            }
            // attributes that coincide: the IPv6 address is the IPv4 address in v4-mapped / v4-compatible / 6to4 form, or the link-local address made from the hardware address
            if (*gx::chance(10)) {
                uint32_t v4 = (uint32_t)c.cfg[2];
                Bytes v6(16, 0);
                int form = *gx::range<int>(0, 3);
                uint8_t q[4] = {(uint8_t)(v4 >> 24), (uint8_t)(v4 >> 16), (uint8_t)(v4 >> 8), (uint8_t)v4};
                if (form == 0) { v6[10] = 0xFF; v6[11] = 0xFF; memcpy(&v6[12], q, 4); }
                else if (form == 1) memcpy(&v6[12], q, 4);
                else if (form == 2) { v6[0] = 0x20; v6[1] = 0x02; memcpy(&v6[2], q, 4); }
                else { v6[0] = 0xFE; v6[1] = 0x80; uint64_t m = (uint64_t)c.cfg[10]; v6[8] = (uint8_t)((m >> 40) ^ 2); v6[9] = (uint8_t)(m >> 32); v6[10] = (uint8_t)(m >> 24); v6[11] = 0xFF; v6[12] = 0xFE; v6[13] = (uint8_t)(m >> 16); v6[14] = (uint8_t)(m >> 8); v6[15] = (uint8_t)m; }
                c.blobs[2] = v6;
                if (*gx::chance(50)) { std::reverse(q, q + 4); if (form == 0) memcpy(&c.blobs[2][12], q, 4); }   // ... in either byte order of the 32-bit value
            }
            return c;
        });
        ok = run_cases(a, ev, "c04-tuples", a.n(100000, 2000000), 100, gen, run);
    }
    ev.write(a.out);
    return ok ? 0 : 1;
}
