// C01 — frame reception is memory-safe and UB-free. (ops 9 raw frame, 10 tick, 11 advance, 12 probe burst + Queries, 13 Discover storm, 14 large-property transfer) Shared by the rapidcheck runner (quick tier)
// and the libFuzzer target (thorough tier): both produce a Case of raw frames / ticks / clock
// advances, which exec_c01() feeds to all three receive entry points in daemon mode.
#pragma once
#include "h.hpp"

// template parameters of one generated frame (decoded from rapidcheck choices or from fuzz bytes)
struct FrameT {
    int tmpl = 0;        // 0 discover 1 emit 2 probe/train 3 query 4 qlt 5 reset 6 hello 7 shell(tos,opcode) 8 raw
    int tos = 0, opcode = 0;
    int st = 0;          // sender station 0..3
    int bridged = 0;
    int dst = 0;         // 0 own 1 broadcast 2 other
    int seq = 1;
    int count_class = 0; // 0:0 1:1 2:fits 3:fits+1 4:0xFFFF 5:any(count_any) 6: small actual
    int count_any = 0;
    int carried = 3;     // descriptors / stations actually carried
    int qtype = 0x0E, qoff = 0;
    int gen = 1;
    int trunc = -1;      // -1: none, else length 0..MTU
    int pad_to_mtu = 0;  // 1: extend the frame with filler up to MTU (everything a count could index is "received")
    int pad_fill = 0;    // filler: 0 = 0x5C bytes, 1 = 0x5C with a partial copy of the receiving station's own address in the incomplete slot at the very end of the buffer, 2 = zero bytes, 3 = the own address over and over, 4 = (Hello template) a chain of zero-length properties up to the end of the buffer whose last two octets open a host-id property
    int ethertype = -1;  // -1: LLTD's 0x88D9; else this value (VLAN tag 0x8100, 0x88A8, IPv4, byte-swapped LLTD ...): frames the daemons' filters may or may not have kept away
    std::vector<std::pair<int, int>> mut;   // (position, value)
    Bytes raw;
};

static inline Bytes c01_frame(size_t mtu, const Mac &own, const FrameT &t) {
    Mac real = mac_from_u64(0x0200AA000001ULL + ((uint64_t)t.st << 8));
    Mac eth = t.bridged ? mac_from_u64(0x0200AA000002ULL + ((uint64_t)t.st << 8)) : real;
    Mac other = mac_from_u64(0x0400EE000001ULL);
    Mac dst = t.dst == 0 ? own : t.dst == 1 ? BCAST : other;
    auto count = [&](size_t unit, size_t hdr) -> long {
        size_t fits = mtu > hdr ? (mtu - hdr) / unit : 0;
        switch (t.count_class) {
            case 0: return 0; case 1: return 1; case 2: return (long)fits; case 3: return (long)fits + 1;
            case 4: return 0xFFFF; case 5: return t.count_any & 0xFFFF; default: return -1;
        }
    };
    Bytes f;
    switch (t.tmpl) {
        case 0: {
            std::vector<Mac> st;
            for (int i = 0; i < t.carried; i++) st.push_back(i == t.carried / 2 && !(t.count_any & 1) ? own : mac_from_u64(0x0600BB000000ULL + (uint64_t)i));   // own address listed in half of the cases
            f = mk_discover(eth, real, (uint8_t)t.tos, (uint16_t)t.seq, (uint16_t)t.gen, st, count(6, 36));
            break;
        }
        case 1: {
            std::vector<EmitDesc> d;
            for (int i = 0; i < t.carried; i++) d.push_back({(uint8_t)(i & 1), (uint8_t)(i == 0 ? 0 : 1), mac_from_u64(0x0400CC000000ULL + (uint64_t)i), own});
            f = mk_emit(dst, eth, dst, real, (uint16_t)t.seq, d, count(14, 34), (uint8_t)t.tos);
            break;
        }
        case 2: f = mk_simple(dst, eth, (uint8_t)t.tos, t.opcode & 1 ? OP_PROBE : OP_TRAIN, dst, real, (uint16_t)t.seq); break;
        case 3: f = mk_simple(dst, eth, (uint8_t)t.tos, OP_QUERY, dst, real, (uint16_t)t.seq); break;
        case 4: f = mk_qlt(dst, eth, dst, real, (uint16_t)t.seq, (uint8_t)t.qtype, (uint16_t)t.qoff, (uint8_t)t.tos); break;
        case 5: f = mk_simple(dst, eth, (uint8_t)t.tos, OP_RESET, dst, real, 0); break;
        case 6: f = mk_hello(real, (uint8_t)t.tos, (uint16_t)t.gen, real, eth); break;
        case 7: f = mk_simple(dst, eth, (uint8_t)t.tos, (uint8_t)t.opcode, dst, real, (uint16_t)t.seq); break;
        default: f = t.raw; break;
    }
    if (t.pad_to_mtu && t.tmpl == 6 && t.pad_fill == 4 && f.size() + 4 <= mtu) {
        // a Hello whose property list runs right up to the last octet of the buffer: zero-length properties, and the header of a host-id property (01 06) as the final two octets
        if (f.back() == 0x00) f.pop_back();   // the template's end marker
        if ((mtu - f.size()) % 2) { f.push_back(0x7E); f.push_back(0x01); f.push_back(0xAA); }
        while (f.size() + 2 < mtu) { f.push_back(0x7E); f.push_back(0x00); }
        f.push_back(0x01); f.push_back(0x06);
    } else if (t.pad_to_mtu && f.size() < mtu) {
        size_t from = f.size();
        f.resize(mtu, t.pad_fill == 2 ? 0x00 : 0x5C);
        if (t.pad_fill == 1) { size_t tail = (mtu - from) % 6; for (size_t i = mtu - tail; i < mtu; i++) f[i] = own.b[i - (mtu - tail)]; }   // only the partial slot at the very end
        if (t.pad_fill == 3) for (size_t i = from; i < mtu; i++) f[i] = own.b[(i - from) % 6];
    }
    if (t.ethertype >= 0 && f.size() >= 14) { f[12] = (uint8_t)(t.ethertype >> 8); f[13] = (uint8_t)t.ethertype; }
    for (auto &m : t.mut) if (!f.empty()) f[(size_t)m.first % f.size()] = (uint8_t)m.second;
    if (t.trunc >= 0 && (size_t)t.trunc < f.size()) f.resize((size_t)t.trunc);
    if (f.size() > mtu) f.resize(mtu);
    return f;
}

struct C01Stats { int frames = 0, deep = 0; uint64_t port_calls = 0; bool truncated = false; std::string fail; };

static void c01_noop_hello(void *) {}

// cfg: [0]=mtu [1]=wifi [2]=own mac [3]=untrunc ; blobs: hostname, ssid, icon, friendly, hwid
static inline C01Stats exec_c01(const Case &c) {
    C01Stats s;
    size_t mtu = (size_t)std::max<int64_t>(64, std::min<int64_t>(c.c(0, 1500), 9216));
    Mac own = mac_from_u64((uint64_t)c.c(2, 0x020000000001LL));
    auto blob = [&](size_t i) { return i < c.blobs.size() ? c.blobs[i] : Bytes(); };
    {
        World w;
        vp_log_enable(0);                   // sends are still read byte by byte (ASan sees over-long lengths)
        w.set_hostname(blob(0), (int)c.c(3));
        if (!blob(2).empty()) w.set_icon(blob(2));
        w.set_friendly(blob(3));
        w.set_hwid(blob(4));
        IfCfg ic;
        ic.mtu = mtu; ic.mac = own; ic.wifi = (int)c.c(1); ic.ssid = blob(1); ic.ssid_untrunc = (int)c.c(3);
        int i0 = w.add_if(ic);              // Darwin flow
        IfCfg ic2 = ic;
        ic2.mac = mac_from_u64(mac_to_u64(own) ^ 0x10);
        int i1 = w.add_if(ic2);             // Linux loop flow
        br_darwin d{};
        memcpy(d.mac, own.b, 6);
        d.ctx = w.ctx(i0); d.send_hello = c01_noop_hello; d.user = w.ctx(i0); d.call_parse_frame = 1;
        if (br_darwin_init(&d) != 0) { s.fail = "constructors failed without fault injection"; return s; }
        void *lm = br_init_mapping(), *ls = br_init_session();
        void *esp = br_esp32_new();
        uint64_t calls0 = vp_alloc_calls() + vp_send_count();
        for (auto &op : c.ops) {
            if (op.kind == 10 /*K_TICK*/) { br_darwin_idle_tick(&d); continue; }
            if (op.kind == 11 /*K_ADVANCE*/) { vp_set_now_ms(vp_now_ms() + (uint64_t)std::max<int64_t>(0, std::min<int64_t>(op.arg(0), 120000))); continue; }
            if (op.kind == 12 /*burst: a = count, first id, then-query*/) {
                // many pairwise-distinct Probe/Train frames addressed to this station (both flows), optionally followed by a Query from station 0
                int64_t cnt = std::max<int64_t>(0, std::min<int64_t>(op.arg(0), 1200));
                const int64_t drains = std::max<int64_t>(1, std::min<int64_t>(op.arg(3, 1), 48));   // how many Queries follow (a full drain of a full list takes 15 at MTU 1500, 38 at 576)
                Mac m0 = mac_from_u64(0x0200AA000001ULL);
                for (int64_t k = 0; k < cnt + drains; k++) {
                    bool query = k >= cnt;
                    if (query && !op.arg(2)) break;
                    for (int flow = 0; flow < 2; flow++) {
                        Mac me = flow == 0 ? own : mac_from_u64(mac_to_u64(own) ^ 0x10);
                        Bytes f = query ? mk_simple(me, m0, 0, OP_QUERY, me, m0, (uint16_t)(7 + (k - cnt)))
                                        : mk_simple(me, mac_from_u64(0x0600CC000000ULL + (uint64_t)(op.arg(1) + k)), 0, (k & 1) ? OP_PROBE : OP_TRAIN, me, mac_from_u64(0x0600DD000000ULL + (uint64_t)((op.arg(1) + k) % 7)), 0);
                        uint8_t *tf;
                        if (flow == 0) br_darwin_rx(&d, w.stage(i0, f, DAEMON, &tf), f.size());
                        else br_linux_rx(lm, ls, w.stage(i1, f, DAEMON, &tf), w.ctx(i1));
                    }
                    s.frames++;
                }
                s.deep++;
                if (vp_ledger_violations()) { s.fail = vp_ledger_last_violation(); break; }
                continue;
            }
            if (op.kind == 13 /*storm: a = count, generation, service*/) {
                // Discovers from many distinct mappers within one instant: session-table full, recycling, mapper conflicts
                int64_t cnt = std::max<int64_t>(0, std::min<int64_t>(op.arg(0), 40));
                for (int64_t k = 0; k < cnt; k++) {
                    Mac mk = mac_from_u64(0x0200BB000001ULL + ((uint64_t)k << 8));
                    for (int flow = 0; flow < 2; flow++) {
                        Mac me = flow == 0 ? own : mac_from_u64(mac_to_u64(own) ^ 0x10);
                        Bytes f = mk_discover(mk, mk, (uint8_t)(op.arg(2) & 1), (uint16_t)(k + 1), (uint16_t)op.arg(1), {mac_from_u64(0x0600BB000001ULL), k & 1 ? me : mac_from_u64(0x0600BB000002ULL)});
                        uint8_t *tf;
                        if (flow == 0) br_darwin_rx(&d, w.stage(i0, f, DAEMON, &tf), f.size());
                        else br_linux_rx(lm, ls, w.stage(i1, f, DAEMON, &tf), w.ctx(i1));
                    }
                    s.frames++;
                }
                s.deep++;
                if (vp_ledger_violations()) { s.fail = vp_ledger_last_violation(); break; }
                continue;
            }
            if (op.kind == 14 /*transfer: a = property type, first sequence number, what follows (0 nothing, 1 topology Reset, 2 the first chunk again, 3 quick Reset)*/) {
                // a mapper fetches a large property chunk by chunk (offsets 0, P, 2P ... with P = MTU - 34, one request past the end), on both flows
                size_t P = mtu - 34;
                size_t size = op.arg(0) == 0x0E ? blob(2).size() : op.arg(0) == 0x11 ? blob(3).size() : blob(4).size();
                Mac m0 = mac_from_u64(0x0200AA000001ULL);
                uint16_t seq = (uint16_t)std::max<int64_t>(1, op.arg(1) & 0xFFFF);
                std::vector<Bytes> fs;
                for (int flow = 0; flow < 2; flow++) {
                    Mac me = flow == 0 ? own : mac_from_u64(mac_to_u64(own) ^ 0x10);
                    std::vector<Bytes> reqs;
                    for (size_t off = 0; off <= size + P && off <= 0xFFFF; off += P) reqs.push_back(mk_qlt(me, m0, me, m0, (uint16_t)(seq + reqs.size()), (uint8_t)op.arg(0), (uint16_t)off, 0));
                    if (op.arg(2) == 1) reqs.push_back(mk_simple(BCAST, m0, 0, OP_RESET, BCAST, m0, 0));
                    if (op.arg(2) == 3) reqs.push_back(mk_simple(BCAST, m0, 1, OP_RESET, BCAST, m0, 0));
                    if (op.arg(2) == 2) reqs.push_back(mk_qlt(me, m0, me, m0, (uint16_t)(seq + 100), (uint8_t)op.arg(0), 0, 0));
                    for (auto &f : reqs) {
                        uint8_t *tf;
                        if (flow == 0) br_darwin_rx(&d, w.stage(i0, f, DAEMON, &tf), f.size());
                        else br_linux_rx(lm, ls, w.stage(i1, f, DAEMON, &tf), w.ctx(i1));
                        s.frames++;
                    }
                }
                s.deep++;
                if (vp_ledger_violations()) { s.fail = vp_ledger_last_violation(); break; }
                continue;
            }
            if (op.kind != 9 /*K_RAW*/) continue;
            Bytes f = op.blob;
            if (f.size() > mtu) f.resize(mtu);
            s.frames++;
            if (f.size() >= 32 && f[15] <= 1 && (f[17] == OP_DISCOVER || f[17] == OP_HELLO || f[17] == OP_EMIT || f[17] == OP_QUERY || f[17] == OP_QLT)) s.deep++;
            uint8_t *tf;
            // (1) Darwin flow: classifier + automata + parseFrame + tick, on the reused MTU buffer
            uint8_t *b0 = w.stage(i0, f, DAEMON, &tf);
            br_darwin_rx(&d, b0, f.size());
            // (2) Linux loop flow: raw opcode into the automata, then parseFrame
            uint8_t *b1 = w.stage(i1, f, DAEMON, &tf);
            br_linux_rx(lm, ls, b1, w.ctx(i1));
            // (3) embedded entry point: exact-size copy, true length
            uint8_t *ex = (uint8_t *)malloc(f.size() ? f.size() : 1);
            cpy(ex, f.data(), f.size());
            br_esp32_handle(esp, f.empty() ? ex : ex, f.size());
            free(ex);
            if (vp_ledger_violations()) { s.fail = vp_ledger_last_violation(); break; }
        }
        s.port_calls = vp_alloc_calls() + vp_send_count() - calls0;
        br_esp32_free(esp);
        br_automata_destroy(lm);
        br_automata_destroy(ls);
        br_darwin_destroy(&d);
        w.teardown_core();   // topology Reset on every interface (must release all retained state), then the records themselves
        if (s.fail.empty() && vp_ledger_violations()) s.fail = vp_ledger_last_violation();
        if (s.fail.empty() && vp_live_blocks() != w.leftover_records())
            s.fail = fmt("%zu block(s) / %zu bytes still allocated after a Reset on every interface and the destruction of every object", vp_live_blocks() - w.leftover_records(), vp_live_bytes());
    }
    return s;
}
