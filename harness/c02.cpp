// C02 — Only well-formed, solicited, bounded frames ever leave the responder.
#include "hist.hpp"
#include "tgen.hpp"

// runs the whole case with the given fill pattern for fresh allocations; per-step transmit events
static std::vector<std::vector<Ev>> trace(const Case &c, int pattern, std::vector<Bytes> *frames_out) {
    HCfg h = HCfg::from_case(c);
    World w;
    vp_fill_pattern(pattern);
    h.apply_global(w);
    int ifi = w.add_if(h.ifcfg());
    Shadow sh;
    OtherIf oif;
    std::vector<std::vector<Ev>> out;
    for (auto &op : c.ops) {
        if (op.kind == K_OTHERIF) { oif.step(w, h, op); out.push_back({}); if (frames_out) frames_out->push_back({}); continue; }   // traffic on another interface of the host: nothing may show here
        if (op.kind == K_ADVANCE) { vp_set_now_ms(vp_now_ms() + (uint64_t)op.arg(0)); out.push_back({}); if (frames_out) frames_out->push_back({}); continue; }
        if (op.kind == K_PBURST) {   // flood of pairwise-distinct probes addressed to this station, delivered natively (not expanded into steps)
            std::vector<Ev> all;
            Mac own = h.ownmac();
            for (int64_t k = 0; k < std::min<int64_t>(op.arg(1), 5000); k++) {
                Bytes f = mk_simple(own, mac_from_u64(0x0600CC000000ULL + (uint64_t)(op.arg(0) + k)), 0, (k & 1) ? OP_PROBE : OP_TRAIN, own, mac_from_u64(0x0600DD000000ULL + (uint64_t)((op.arg(0) + k) % 5)), 0);
                for (auto &e : w.deliver(ifi, f)) all.push_back(e);
            }
            out.push_back(all);
            if (frames_out) frames_out->push_back({});
            continue;
        }
        Built b = build_frame(h, op, sh);
        if (!b.is_frame) { out.push_back({}); if (frames_out) frames_out->push_back({}); continue; }
        if (b.frame.size() > h.mtu) b.frame.resize(h.mtu);
        out.push_back(w.deliver(ifi, b.frame));
        // the core gets a bare pointer into a zero-filled MTU buffer and no length: what it reacts to is the
        // zero-extended frame, so that is what the solicitation budget is computed from
        if (frames_out) { Bytes z = b.frame; z.resize(h.mtu, 0); frames_out->push_back(z); }
        shadow_update(sh, op, b);
    }
    return out;
}

static Verdict run(const Case &c) {
    Verdict v;
    HCfg h = HCfg::from_case(c);
    Mac own = h.ownmac();
    std::vector<Bytes> frames;
    auto t1 = trace(c, 0xA5, &frames);
    auto t2 = trace(c, 0x5A, nullptr);
    auto t3 = trace(c, 0x00, nullptr);   // all-zero fresh memory is a pattern too (a forgotten field that is only tested for "non-zero" agrees between 0xA5 and 0x5A)
    std::set<int> opcodes;
    size_t ntx = 0;
    bool noise = false;
    for (size_t i = 0; i < t1.size() && v.ok; i++) {
        // C: determinism — the same frames whatever fresh memory contains
        if (!(t1[i] == t2[i])) { v.fail(fmt("step %zu: transmit trace differs between the 0xA5 and 0x5A runs (uninitialised bytes leak into frames or behaviour)", i)); break; }
        if (i < t3.size() && !(t1[i] == t3[i])) { v.fail(fmt("step %zu: transmit trace differs between the 0xA5 and 0x00 runs (uninitialised bytes leak into frames or behaviour)", i)); break; }
        // A: well-formedness of every transmitted frame
        for (auto &e : t1[i]) {
            if (e.kind == VE_SLEEP) continue;
            std::string err = wellformed(e.data, h.mtu, own);
            if (!err.empty() && (h.fail & VF_MAC)) err = wellformed(e.data, h.mtu, ZEROMAC);   // address getter fails: the all-zero address is what the configuration determines
            if (!err.empty()) { v.fail(fmt("step %zu: transmitted frame is not well-formed: %s [%s]", i, err.c_str(), hex(e.data).substr(0, 96).c_str())); break; }
            opcodes.insert(e.data[17]);
            ntx++;
        }
        if (!v.ok) break;
        // B: solicitation budget for the frame just handled
        if (frames[i].empty()) {   // a step that delivered no single request frame (clock advance, probe flood): nothing may have been transmitted
            if (!sends_only(t1[i]).empty()) v.fail(fmt("step %zu: %zu frame(s) transmitted although no request was received", i, sends_only(t1[i]).size()));
            continue;
        }
        Budget b = budget_for(frames[i], h.mtu);
        if (frames[i].size() >= 34 && frames[i][17] == OP_EMIT && frames[i][15] == 0) {
            size_t declared = get16(frames[i].data() + 32), cap = (h.mtu - 34) / 14;
            b.probes = (int)std::min(declared, cap);
        }
        std::string err = check_budget(t1[i], b);
        if (!err.empty()) v.fail(fmt("step %zu: %s (received %s...)", i, err.c_str(), hex(frames[i]).substr(0, 72).c_str()));
        if (c.ops[i].kind == K_RAW || c.ops[i].kind == K_SHELL) noise = true;
    }
    {   // digest of the whole transmit trace: compared between two builds of the core that differ only in what an uninitialised
        // automatic variable reads (0xAA.. versus 0x00..), see engines.c02_autoinit_post
        uint64_t hsh = 1469598103934665603ULL;
        for (auto &step : t1) { uint64_t d = ev_digest(step); hsh = fnv(&d, 8, hsh); }
        v.trace_digest = hsh;
    }
    v.nontrivial = ntx >= 3 && opcodes.size() >= 2;
    for (int o : opcodes) v.cls(fmt("tx-opcode-%d", o));
    if (noise) v.cls("has-noise-or-mutant");
    if (h.wifi) v.cls("wifi");
    return v;
}

int main(int argc, char **argv) {
    Args a = parse_args(argc, argv);
    if (!a.replay.empty()) return replay_case(a, run);
    zygote_start(run);   // before any code under test runs in this process
    if (!a.digest_of.empty()) {
        std::string t; Case c;
        if (!read_file(a.digest_of, t) || !Case::from_text(t, c)) return 2;
        Verdict v = run(c);
        printf("TRACE-DIGEST %016llx %s\n", (unsigned long long)v.trace_digest, v.ok ? "ok" : v.why.c_str());
        return 0;
    }
    Current::install(a.failing);
    Evidence ev;
    ev.rule = "configurations (MTU, wired/Wi-Fi, names 0..40 bytes) x frame histories mixing valid session traffic, templated/mutated/truncated frames and raw noise; "
              "every transmitted frame is decoded independently (well-formed, <= MTU), attributed to the frame being handled (per-request budget), "
              "and the whole history is run twice with fresh allocations filled 0xA5 / 0x5A / 0x00 (byte-identical traces). "
              "non-trivial = >= 3 transmitted frames of >= 2 different opcodes; distinct = digest of the case";
    HistWeights w;
    w.raw = 0; w.shell = 3; w.commands_from_active_only = false; w.pburst = 1; w.otherif = 1;
    // mix: history ops + raw frames from the template/mutation generator
    auto gen = rc::gen::exec([w] {
        HCfg h = *hg::cfg_gen();
        if (*gx::chance(25)) {   // part of the configuration: platform getters that report failure (the answer must still be determined by configuration + frames)
            static const int64_t bits[] = {VF_MAC, VF_IFTYPE, VF_IPV4, VF_IPV6, VF_SPEED, VF_BSSID, VF_SSID, VF_RATE, VF_RSSI, VG_HOSTNAME, VG_ICON, VG_FRIENDLY, VG_HWID, VG_UUID, VG_URL};
            int nf = *gx::range<int>(1, 3);
            for (int i = 0; i < nf; i++) h.fail |= (uint32_t)bits[*gx::range<int>(0, 14)];
        }
        Case c;
        h.to_case(c);
        Mac own = h.ownmac();
        size_t mtu = h.mtu;
        int n = *gx::range<int>(1, 40);
        c.ops = hg::expand_bursts(*rc::gen::resize(n, rc::gen::container<std::vector<Op>>(gx::weighted<Op>({
            {5, hg::op_gen(w)},
            {1, rc::gen::exec([=] { Op o; o.kind = K_RAW; o.blob = c01_frame(mtu, own, *frame_t_gen()); return o; })}}))));
        return c;
    });
    bool ok = true;
    // deterministic family: more distinct observations than the responder may retain, then the mapper drains them with Queries
    if (a.dump_index < 0) {
        long k = 0;
        for (size_t mtu : {(size_t)576, (size_t)1500, (size_t)1514})
            for (int64_t n : {1020, 1030, 1100, 2100}) {
                if (!ok || k++ % a.nshards != a.shard) continue;
                HCfg h; h.mtu = mtu;
                Case c; h.to_case(c);
                Op d; d.kind = K_DISCOVER; d.a = {0, 0, 1, 1, 0, 0, -1}; c.ops.push_back(d);
                Op b; b.kind = K_PBURST; b.a = {1000, n}; c.ops.push_back(b);
                for (int q = 0; q < (int)(1100 / ((mtu - 34) / 20)) + 4; q++) { Op o; o.kind = K_QUERY; o.a = {-1, 100 + q}; c.ops.push_back(o); }
                CurrentScope scope(c);
                Verdict v = run(c);
                ev.note(c.digest(), v.nontrivial && v.ok, [&] { return c.to_text().substr(0, 300); });
                ev.count("c02-flood-drain:cases");
                if (!v.ok) { write_file(a.failing, "# c02-flood-drain: " + v.why + "\n" + c.to_text()); fprintf(stderr, "FAIL part=c02-flood-drain %s\n", v.why.c_str()); ok = false; }
            }
    }
    if (a.dump_index >= 0) ok = true;
    if (ok) ok = run_cases(a, ev, "c02-histories", a.n(60000, 500000), 100, gen, run);
    if (a.dump_index >= 0) return 0;
    ev.write(a.out);
    return ok ? 0 : 1;
}
