// C10 — Probes emitted by one responder are observed by a peer responder.
#include "hist.hpp"

enum { K_EMIT_A = 50, K_NOISE = 51, K_QUERY_B = 52, K_HELLO_X = 53 };
// K_EMIT_A: blob = descriptors (kind, pause, src_sel, dst_sel as 1 byte each => 4 bytes per descriptor); a: seq
//   src_sel: 0 = A's address, 1..3 = other addresses ; dst_sel: 0 = B, 1..3 = third stations
// K_NOISE: a: which (7 the mapper's quick-discovery Reset, 0 probe between third stations, 1 foreign Hello to both, 2 probe from third station to A, 3/4 large-TLV requests, 5 unrelated probe to B, 6 the mapper's Discover again: service, generation, acknowledging)

static Verdict run(const Case &c) {
    Verdict v;
    HCfg h = HCfg::from_case(c);
    World w;
    h.apply_global(w);
    IfCfg ca = h.ifcfg(), cb = h.ifcfg();
    Mac A = h.ownmac(), B = mac_from_u64((uint64_t)c.c(8, 0x020000000099LL));
    if (A == B) B = mac_from_u64(mac_to_u64(A) ^ 0x0100);
    cb.mac = B;
    int ia = w.add_if(ca), ib = w.add_if(cb);
    // a third responder C on the same segment (same host, same core): it hears every broadcast, is looked up between A's and B's frames, and must not matter
    IfCfg cc = h.ifcfg(); cc.mac = mac_from_u64(mac_to_u64(B) ^ 0x020000); if (cc.mac == A) cc.mac = mac_from_u64(mac_to_u64(A) ^ 0x040000);
    int ic3 = c.c(9, 1) ? w.add_if(cc) : -1;
    Mac M = h.st_real(0);
    auto third = [&](int k) { return mac_from_u64(0x0400F0000000ULL + (uint64_t)k); };
    auto srcsel = [&](int k) { return k == 0 ? A : k == 250 ? B : (k >= 100 && k < 200) ? mac_from_u64((0x0400CC000000ULL + (uint64_t)(k - 100)) ^ 0xFFFF00000000ULL)   // twin of source k-100: other first two octets
                                                                      : mac_from_u64(0x0400CC000000ULL + (uint64_t)k); };   // k in 0..255: A itself or a spoofed source
    // B must report these (real source A, Ethernet source, Ethernet destination B); and must not report frames for third stations
    std::set<QDesc> must;          // keyed without type
    std::set<Mac> forbidden_edst;  // third-station destinations A emitted to
    int towards_b = 0, towards_third = 0;
    std::set<std::pair<int, uint64_t>> kinds_b;
    // cfg[11]: the mapper's frames reach A through station B acting as the bridge - their Ethernet source is B's address (A's next hop towards the mapper is B itself)
    const Mac MA = c.c(11) ? B : M;
    if (c.c(10)) {   // the mapper's first contact is a quick-discovery Discover (ToS 1); its topology session follows without a Reset in between
        (void)w.deliver(ia, mk_discover(MA, M, 1, 1, (uint16_t)c.c(10), {}));
        (void)w.deliver(ib, mk_discover(M, M, 1, 1, (uint16_t)c.c(10), {}));
    }
    if (!c.c(12)) (void)w.deliver(ia, mk_discover(MA, M, 0, 1, 1, {}));   // cfg[12]: A has not heard any Discover yet when it is ordered to emit (its first frame ever is the Emit)
    (void)w.deliver(ib, mk_discover(M, M, 0, 1, 1, {}));
    if (ic3 >= 0) (void)w.deliver(ic3, mk_discover(M, M, 0, 1, 1, {}));
    bool queried = false;
    auto query_b = [&](uint16_t seq0) {
        std::vector<QDesc> got;
        uint16_t seq = seq0 ? seq0 : 1;
        bool more = true;
        for (int n = 0; n < 40 && more && v.ok; n++) {
            std::vector<Ev> tx = sends_only(w.deliver(ib, mk_simple(B, M, 0, OP_QUERY, B, M, seq)));
            if (tx.size() != 1) { v.fail(fmt("B answered a Query with %zu frames", tx.size())); return; }
            QResp q;
            std::string e = dec_qresp(tx[0].data, q);
            if (!e.empty()) { v.fail("B's QueryResp malformed: " + e); return; }
            got.insert(got.end(), q.d.begin(), q.d.end());
            more = q.more;
            seq = (uint16_t)(seq == 0xFFFF ? 1 : seq + 1);
        }
        for (auto &m : must) {
            bool found = false;
            for (auto &g : got) if (g.rsrc == m.rsrc && g.esrc == m.esrc && g.edst == m.edst) found = true;
            if (!found) { v.fail(fmt("B's QueryResp (%zu descriptors) lacks the frame A emitted towards B: real source %s, Ethernet %s>%s", got.size(), m.rsrc.str().c_str(), m.esrc.str().c_str(), m.edst.str().c_str())); return; }
        }
        for (auto &g : got) if (g.rsrc == A && forbidden_edst.count(g.edst)) { v.fail(fmt("B reports a frame A sent to third station %s", g.edst.str().c_str())); return; }
        must.clear();
        queried = true;
    };
    for (size_t i = 0; i < c.ops.size() && v.ok; i++) {
        const Op &op = c.ops[i];
        switch (op.kind) {
            case K_EMIT_A: {
                std::vector<EmitDesc> d;
                for (size_t k = 0; k + 4 <= op.blob.size() && d.size() < (h.mtu - 34) / 14; k += 4) {
                    EmitDesc e; e.kind = op.blob[k] & 1; e.pause = op.blob[k + 1];
                    e.src = srcsel(op.blob[k + 2]); e.dst = (op.blob[k + 3] & 3) == 0 ? B : third(op.blob[k + 3] & 3);
                    d.push_back(e);
                }
                uint16_t seq = (uint16_t)op.arg(0);   // 0 included: an Emit that asks for no acknowledgement is carried out all the same
                // what the mapper orders must show up in B's report (C06 obliges A to emit it); checked in addition to what A really put on the wire
                for (auto &e : d) if (e.dst == B) must.insert(QDesc{0, A, e.src, B});
                std::vector<Ev> tx = sends_only(w.deliver(ia, mk_emit(A, MA, A, M, seq, d)));
                // shared segment: every frame A put on the wire reaches B unmodified (and A itself)
                for (auto &e : tx) {
                    Hdr hd;
                    if (!dec_hdr(e.data, hd)) continue;
                    if (hd.op == OP_PROBE || hd.op == OP_TRAIN) {
                        if (hd.edst == B) { must.insert(QDesc{0, A, hd.esrc, B}); towards_b++; kinds_b.insert({hd.op, mac_to_u64(hd.esrc)}); }
                        else { forbidden_edst.insert(hd.edst); towards_third++; }
                    }
                    std::vector<Ev> rb = sends_only(w.deliver(ib, e.data));
                    std::vector<Ev> ra = sends_only(w.deliver(ia, e.data));
                    if (!rb.empty() || !ra.empty()) { v.fail("a Probe/Train/ACK made a responder transmit"); break; }
                }
                break;
            }
            case K_NOISE: {
                int k = (int)op.arg(0);
                Bytes f = k == 0 ? mk_simple(third(2), third(1), 0, OP_PROBE, third(2), third(1), 0)
                        : k == 1 ? mk_hello(third(3), 0, 9, M, M)
                        : k == 2 ? mk_simple(A, third(1), 0, OP_TRAIN, A, third(1), 0)
                        : k == 5 ? mk_simple(B, srcsel(1 + (int)(op.arg(1, 1) & 1)), 0, OP_PROBE, B, third(1), 0)   // unrelated probe to B whose Ethernet source coincides with a source A is told to spoof
                        : k == 6 ? mk_discover(M, M, (uint8_t)(op.arg(1) & 1), (uint16_t)(op.arg(1) >> 1), (uint16_t)op.arg(2), k == 6 && (op.arg(1) & 2) ? std::vector<Mac>{A, B} : std::vector<Mac>{})   // the mapper repeats its Discover (either service, any generation, acknowledging or not)
                        : k == 8 ? Bytes()   // (no frame: the clock moves on by more than a minute - see below)
                        : k == 7 ? mk_simple(BCAST, M, 1, OP_RESET, BCAST, M, 0)     // the mapper resets its quick-discovery session: topology observations stay
                        : k == 3 ? mk_qlt(A, third(2), A, third(2), (uint16_t)op.arg(1, 1), 0x11, 0, 1)     // quick-discovery request from another station
                                 : mk_qlt(A, M, A, M, (uint16_t)op.arg(1, 1), 0x0E, 0, 0);                  // the mapper fetches the icon in between
                if (k == 8) { vp_set_now_ms(vp_now_ms() + (uint64_t)(op.arg(1, 1) % 3 == 0 ? 30000 : 61000 + (op.arg(1, 1) % 7) * 10000)); break; }   // what B observed waits for the Query however long that takes
                if (k == 6 || k == 7) {   // broadcasts reach everybody: A, then C, then B
                    (void)w.deliver(ia, f); if (ic3 >= 0) (void)w.deliver(ic3, f); (void)w.deliver(ib, f);
                    if (k == 7) { Bytes d = mk_discover(M, M, 0, 2, 1, {}); (void)w.deliver(ia, d); if (ic3 >= 0) (void)w.deliver(ic3, d); (void)w.deliver(ib, d); }   // ... and M opens its topology session again at once (it stays the mapper)
                }
                else { (void)w.deliver(ib, f); (void)w.deliver(ia, f); }
                break;
            }
            case K_QUERY_B: query_b((uint16_t)op.arg(0)); break;
            default: break;
        }
    }
    if (v.ok && !must.empty()) query_b(0x0101);   // the mapper always ends by querying B
    v.nontrivial = queried && kinds_b.size() >= 2 && towards_third >= 1;
    if (towards_b) v.cls("emitted-towards-B");
    if (towards_third) v.cls("emitted-towards-third");
    if (kinds_b.size() >= 2) v.cls(">=2-distinct-kind/source-towards-B");
    return v;
}

int main(int argc, char **argv) {
    Args a = parse_args(argc, argv);
    if (!a.replay.empty()) return replay_case(a, run);
    zygote_start(run);   // before any code under test runs in this process
    Current::install(a.failing);
    Evidence ev;
    ev.rule = "two instances A, B of the core (generated distinct addresses, MTU, wired/Wi-Fi) plus a scripted mapper M: Discover to both, Emits to A whose descriptors point at B or at third stations "
              "(Probe and Train, any pause, source = A or spoofed), every frame A transmits is delivered unmodified to B and to A, unrelated traffic interleaved, M queries B while 'more' is set. "
              "Every Probe/Train A sent with Ethernet destination B must be in B's report with real source A; frames to third stations must not. "
              "non-trivial = >= 2 frames towards B of different kind or source and >= 1 towards a third station, and B was queried; distinct = digest of the case";
    auto gen = rc::gen::exec([] {
        HCfg h = *hg::cfg_gen();
        if (*gx::chance(3)) h.own = (uint64_t)*gx::pick({0x000000000000LL, 0xFFFFFFFFFFFFLL, 0x000000000001LL, 0xFFFFFFFFFFFELL});   // "arbitrary addresses": whatever the platform reports as A's address is what B must report
        Case c; h.to_case(c);
        c.cfg.push_back(0x020000000000LL | *gx::range<int64_t>(1, 0xFFFFFF));   // B's address (cfg[8])
        c.cfg.push_back(*gx::pick({1, 1, 1, 0}));                                 // a third responder on the segment (cfg[9])
        c.cfg.push_back(*gx::pick({0, 0, 0, 1, 7}));                              // first contact through quick discovery with this generation (cfg[10], 0 = no)
        c.cfg.push_back(*gx::pick({0, 0, 0, 1}));                                 // the mapper reaches A through B (cfg[11])
        c.cfg.push_back(*gx::pick({0, 0, 0, 0, 1}));                              // A's first frame ever is the Emit (cfg[12])
        if (*gx::chance(20)) {
            // capacity family: A emits about as many frames with pairwise distinct sources towards B as one QueryResp of B holds, then B is queried
            size_t capq = (h.mtu - 34) / 20, cape = (h.mtu - 34) / 14;
            int64_t want = (int64_t)capq + *gx::pick({-1, 0, 0, 1, 2});
            if (want > 250) want = 250;          // the source selector is one byte
            int64_t sent = 0;
            while (sent < want) {
                Op o; o.kind = K_EMIT_A; o.a = {*hg::seq_gen()};
                int64_t n = std::min<int64_t>(want - sent, (int64_t)std::min<size_t>(cape, 60));
                for (int64_t i = 0; i < n; i++) { o.blob.push_back((uint8_t)((sent + i) & 1)); o.blob.push_back(0); o.blob.push_back((uint8_t)(1 + sent + i)); o.blob.push_back(0); }
                c.ops.push_back(o);
                sent += n;
            }
            Op q; q.kind = K_QUERY_B; q.a = {*hg::seq_gen()};
            c.ops.push_back(q);
            return c;
        }
        int n = *gx::range<int>(1, 10);
        c.ops = *rc::gen::resize(n, rc::gen::container<std::vector<Op>>(rc::gen::exec([] {
            Op o;
            int k = *gx::range<int>(0, 9);
            if (k <= 5) {
                o.kind = K_EMIT_A; o.a = {*hg::seq0_gen()};
                int nd = *gx::range<int>(1, 6);
                for (int i = 0; i < nd; i++) {
                    o.blob.push_back((uint8_t)*gx::pick({0, 1}));
                    o.blob.push_back((uint8_t)*gx::bnd({0, 1, 255}, 0, 255, 1, 1));
                    o.blob.push_back((uint8_t)*gx::pick({0, 0, 0, 1, 2, 200, 250, 101, 102, 1, 2}));
                    o.blob.push_back((uint8_t)*gx::pick({0, 0, 0, 1, 2, 3}));
                }
            } else if (k <= 7) { o.kind = K_NOISE; o.a = {*gx::range<int64_t>(0, 8), *hg::seq_gen(), *hg::gen_gen()}; }
            else { o.kind = K_QUERY_B; o.a = {*hg::seq_gen()}; }
            return o;
        })));
        return c;
    });
    bool ok = run_cases(a, ev, "c10-pairs", a.n(120000, 800000), 100, gen, run);
    ev.write(a.out);
    return ok ? 0 : 1;
}
