// C11 — Acknowledgement by the mapper is recognised from the Discover (session-event classifier).
#include "rcx.hpp"

// cfg: [0] n stations declared, [1] p (-1 = own address absent), [2] decoy (0 none, 1 near-miss addresses, 2 own address straddling two slots, 3 all-zero/broadcast/multicast/mapper addresses as list entries),
//      [3] table class 0..6, [4] opcode, [5] ToS, [6] real destination broadcast?, [7] held (-1 = n; else stations really inside the received length),
//      [8] generation, [9] xid, [10] Reset/other frames: Ethernet destination broadcast? (independent of the real destination),
//      [12] the frame's real source is this station's own address (an echo of something it sent itself) - classification must not depend on it
//      [11] extra station slots the frame carries BEYOND the declared count (the own address is put into the first of them: it must not count)
enum { T_NULL, T_EMPTY, T_SAME_SAME_XID, T_SAME_OTHER_XID, T_SAME_MAPPER_OTHER_GEN, T_OTHER_MAPPER_SAME_GEN, T_FULL_OTHERS, T_HOLE_THEN_OTHER_XID, T_HOLE_THEN_SAME_XID, T_SAME_SAME_XID_COMPLETE, T_SAME_OTHER_XID_COMPLETE, T_OTHER_GEN_FIRST_THEN_OTHER_XID, T_OTHER_GEN_FIRST_THEN_SAME_XID, T_READDED_WITH_LOWER_XID, T_CLEARED_AFTER_A_GAP, T_NCLASSES };

static const Mac OWN = {{0x02, 0x11, 0x22, 0x33, 0x44, 0x55}};
static const Mac MAPPER = {{0x02, 0xAA, 0x00, 0x00, 0x00, 0x01}};

static Verdict run(const Case &c) {
    Verdict v;
    World w;
    int n = (int)std::max<int64_t>(0, std::min<int64_t>(c.c(0), 240)), p = (int)c.c(1, -1), decoy = (int)c.c(2), tclass = (int)c.c(3);
    int opcode = (int)c.c(4) & 0xFF, tos = (int)c.c(5) & 0xFF, held = (int)c.c(7, -1);
    uint16_t gen = (uint16_t)c.c(8, 1), xid = (uint16_t)c.c(9, 1);
    if (p >= n) p = -1;
    if (held < 0 || held > n) held = n;
    const size_t MTU = 1500;
    // ---- frame
    std::vector<Mac> st;
    for (int i = 0; i < n; i++) {
        Mac m = mac_from_u64(0x0600BB000000ULL + (uint64_t)i * 0x010101ULL);
        if (decoy == 1) { m = OWN; m.b[i % 6] ^= (uint8_t)(1 << (i % 8)); }     // differs from own in exactly one bit
        if (decoy == 3) {   // addresses with a "special" look: all-zero, broadcast, multicast, the mapper itself - list entries like any other
            static const uint64_t sp[] = {0x000000000000ULL, 0xFFFFFFFFFFFFULL, 0x01005E000001ULL, 0x02AA00000001ULL, 0x000000000001ULL};
            m = mac_from_u64(sp[i % 5]);
        }
        st.push_back(m);
    }
    if (decoy == 2 && n >= 2) {   // own address at a byte offset that is not a multiple of 6
        for (int k = 0; k + 1 < n; k += 2) {
            if (k == p || k + 1 == p) continue;
            Mac a = {{0x06, 0x07, 0x08, OWN.b[0], OWN.b[1], OWN.b[2]}}, b = {{OWN.b[3], OWN.b[4], OWN.b[5], 0x09, 0x0A, 0x0B}};
            st[k] = a; st[k + 1] = b;
        }
    }
    if (p >= 0) st[p] = OWN;
    // [17] the own address stands in the list more than once (k further copies, spread over the list): still one acknowledgement, nothing else
    for (int64_t k = 1; k <= std::min<int64_t>(c.c(17), 3) && p >= 0 && n >= 2; k++) st[(size_t)((p + k * (n / 4 + 1)) % n)] = OWN;
    Mac rdst = c.c(6) ? BCAST : OWN, edst = c.c(10, c.c(6)) ? BCAST : OWN;
    int extra = (int)std::max<int64_t>(0, std::min<int64_t>(c.c(11), 8));
    if (held < n) extra = 0;
    Bytes f;
    const Mac SRC = c.c(12) ? OWN : MAPPER;
    if (opcode == OP_DISCOVER) {
        // [16] the Discover arrives through a bridge: its Ethernet source is not the mapper (1: an address nobody knows; 2: the address of ANOTHER mapper whose session is in the
        //      table in class "other mapper") - sessions are those of the real source
        Mac ESRC = c.c(16) == 1 ? mac_from_u64(0x02AA00000077ULL) : c.c(16) == 2 ? mac_from_u64(0x02AA00000002ULL) : SRC;
        f = mk_discover(ESRC, SRC, (uint8_t)tos, xid, gen, st);
        for (int i = 0; i < extra; i++) putmac(f, i == 0 ? OWN : mac_from_u64(0x0600EE000000ULL + (uint64_t)i));   // received bytes after the declared list
    } else { f = mk_header(edst, SRC, (uint8_t)tos, (uint8_t)opcode, rdst, SRC, xid); Bytes body(20, 0x77); f.insert(f.end(), body.begin(), body.end()); }
    size_t len = opcode == OP_DISCOVER ? 36 + 6 * (size_t)(held + extra) : f.size();
    // [15] r in 1..5: the received frame ends with the first r octets of this station's address right behind the last whole station, and the
    //      receive buffer ends there too (a partial entry is no entry, and nothing behind the buffer is read)
    size_t partial = opcode == OP_DISCOVER && extra == 0 ? (size_t)std::max<int64_t>(0, std::min<int64_t>(c.c(15), 5)) : 0;
    if (partial) { Bytes g(f.begin(), f.begin() + (long)std::min(f.size(), len)); g.resize(len, 0); for (size_t i = 0; i < partial; i++) g.push_back(OWN.b[i]); f = g; len += partial; }
    const size_t bufsz = partial ? len : MTU;
    uint8_t *buf = (uint8_t *)malloc(bufsz);
    memset(buf, 0xEE, bufsz);
    cpy(buf, f.data(), std::min(f.size(), bufsz));    // stations beyond 'held' stay in the buffer as stale bytes
    // ---- table
    void *t = tclass == T_NULL ? nullptr : br_st_create();
    bool changed = false;
    const bool src_is_mapper = !c.c(12);
    Mac other = {{0x02, 0xAA, 0x00, 0x00, 0x00, 0x02}};
    switch (tclass) {
        case T_SAME_SAME_XID: br_st_add(t, MAPPER.b, gen, xid); break;
        case T_SAME_OTHER_XID: br_st_add(t, MAPPER.b, gen, (uint16_t)(xid ^ 0x0100)); changed = true; break;
        case T_SAME_MAPPER_OTHER_GEN: br_st_add(t, MAPPER.b, (uint16_t)(gen + 1), (uint16_t)(xid + 1)); break;
        case T_OTHER_MAPPER_SAME_GEN: br_st_add(t, other.b, gen, (uint16_t)(xid + 1)); break;
        case T_FULL_OTHERS: for (int i = 0; i < br_st_capacity(); i++) { Mac m = mac_from_u64(0x02CC00000000ULL + (uint64_t)i); br_st_add(t, m.b, gen, (uint16_t)(xid + 1)); } break;
        case T_HOLE_THEN_OTHER_XID: case T_HOLE_THEN_SAME_XID:   // the matching session sits behind a freed slot (an earlier session was removed)
            br_st_add(t, other.b, gen, 1); { Mac o2 = {{0x02, 0xAA, 0, 0, 0, 3}}; br_st_add(t, o2.b, gen, 1); }
            br_st_add(t, MAPPER.b, gen, tclass == T_HOLE_THEN_OTHER_XID ? (uint16_t)(xid ^ 0x0100) : xid);
            br_st_remove(t, other.b, gen);
            changed = tclass == T_HOLE_THEN_OTHER_XID;
            break;
        case T_SAME_SAME_XID_COMPLETE: case T_SAME_OTHER_XID_COMPLETE: {   // the session is known and already marked complete (an earlier acknowledging Discover)
            void *e = br_st_add(t, MAPPER.b, gen, tclass == T_SAME_OTHER_XID_COMPLETE ? (uint16_t)(xid ^ 0x0100) : xid);
            if (e) { br_entry_set_complete(e, 1); br_entry_set_state(e, 3); }
            br_st_update(t);
            changed = tclass == T_SAME_OTHER_XID_COMPLETE;
            break;
        }
        case T_READDED_WITH_LOWER_XID:   // the session was refreshed twice, the second time under the frame's transaction id, which is the "older" one in serial arithmetic: it is known under THAT id now
            br_st_add(t, MAPPER.b, gen, (uint16_t)(xid + 5)); br_st_add(t, MAPPER.b, gen, xid);
            break;
        case T_CLEARED_AFTER_A_GAP:      // sessions came and went (one removed, leaving a gap below the mapper's), then the table was cleared: nothing is known any more
            br_st_add(t, other.b, gen, 1); br_st_add(t, MAPPER.b, gen, (uint16_t)(xid ^ 0x0100)); br_st_remove(t, other.b, gen); br_st_clear(t);
            break;
        case T_OTHER_GEN_FIRST_THEN_OTHER_XID: case T_OTHER_GEN_FIRST_THEN_SAME_XID:   // the mapper is known under two generations; the frame's one sits in the later slot
            br_st_add(t, MAPPER.b, (uint16_t)(gen + 1), xid);
            br_st_add(t, MAPPER.b, (uint16_t)(gen ^ 0x8000), (uint16_t)(xid + 7));
            br_st_add(t, MAPPER.b, gen, tclass == T_OTHER_GEN_FIRST_THEN_OTHER_XID ? (uint16_t)(xid ^ 0x0100) : xid);
            changed = tclass == T_OTHER_GEN_FIRST_THEN_OTHER_XID;
            break;
        default: break;
    }
    // [13] seconds that pass (without any tick) between the moment the table was filled and the classification: a session is "known"
    //      as long as the table holds it, however long ago it was last heard of
    // [14] a SECOND session table (another interface of the host) knows the same mapper and generation under another transaction id and
    //      is consulted first: what it holds says nothing about the table the frame is classified against
    void *t2 = nullptr;
    if (c.c(14)) {
        t2 = br_st_create();
        if (t2) {
            br_st_add(t2, MAPPER.b, gen, (uint16_t)(c.c(14) == 1 ? xid ^ 0x0100 : xid));
            (void)br_st_find(t2, MAPPER.b, gen, xid);
            (void)br_derive_session_event(buf, len, t2, OWN.b);
        }
    }
    if (c.c(13) > 0) vp_set_now_ms(vp_now_ms() + (uint64_t)std::min<int64_t>(c.c(13), 100000) * 1000);
    Bytes before;
    if (t) before.assign((const uint8_t *)br_st_raw(t), (const uint8_t *)br_st_raw(t) + br_st_sizeof());
    if (!src_is_mapper) changed = false;   // the table knows MAPPER, not the own address
    int ev = br_derive_session_event(buf, len, t, OWN.b);
    if (t && memcmp(before.data(), br_st_raw(t), br_st_sizeof()) != 0) v.fail("the classifier modified the session table");
    // ---- oracle (event numbers: 1 reset, 2 noack, 3 acking, 4 noack changed, 5 acking changed, 6 topology reset, 7 hello)
    std::string got = fmt("classifier returned %d", ev);
    if (opcode == OP_DISCOVER) {
        bool present = false;
        for (int i = 0; i < held && i < (int)st.size(); i++) if (st[(size_t)i] == OWN) present = true;   // any copy of the own address among the stations the frame really holds
        if (n == 0) {
            if (changed ? !(ev == 4 || ev == 5) : !(ev == 2 || ev == 3)) v.fail(fmt("Discover with empty list, transaction %s: %s", changed ? "changed" : "unchanged", got.c_str()));
        } else if (held == 0) {
            if (!(ev >= 2 && ev <= 5) || ((ev == 4 || ev == 5) != changed)) v.fail(fmt("Discover declaring %d stations but holding none: %s", n, got.c_str()));
        } else {
            int want = present ? (changed ? 5 : 3) : (changed ? 4 : 2);
            if (ev != want) v.fail(fmt("Discover with %d stations (%d inside the frame), own address %s, decoy %d, table class %d: %s, expected %d",
                                       n, held, p < 0 ? "absent" : fmt("at index %d", p).c_str(), decoy, tclass, got.c_str(), want));
        }
    } else if (opcode == OP_RESET) {
        int want = c.c(6) ? 6 : 1;
        if (ev != want) v.fail(fmt("Reset with %s real destination: %s, expected %d", c.c(6) ? "broadcast" : "unicast", got.c_str(), want));
    } else if (opcode == OP_HELLO) {
        if (ev != 7) v.fail(fmt("Hello: %s, expected 7", got.c_str()));
    } else if (ev != -1) v.fail(fmt("opcode %d: %s, expected no event (-1)", opcode, got.c_str()));
    if (t) br_st_destroy(t);
    if (t2) br_st_destroy(t2);
    free(buf);
    v.nontrivial = opcode == OP_DISCOVER && ((n >= 2 && p >= 1) || (decoy && n >= 1) || extra);
    if (opcode == OP_DISCOVER) {
        v.cls(p < 0 ? "own-absent" : p == 0 ? "own-first" : p == n - 1 ? "own-last" : "own-middle");
        v.cls(fmt("table-class-%d", tclass));
        if (decoy) v.cls(fmt("decoy-%d", decoy));
        if (held < n) v.cls("count-exceeds-frame");
        if (partial) v.cls("frame-ends-with-a-partial-copy-of-the-own-address");
        if (c.c(16)) v.cls("bridged-discover");
        if (c.c(13) > 60) v.cls("session-last-heard-of-more-than-60s-ago");
        if (c.c(14)) v.cls("second-table-knows-the-mapper");
        if (extra) v.cls("frame-holds-more-than-count");
    } else v.cls(opcode == OP_RESET ? "reset" : opcode == OP_HELLO ? "hello" : "other-opcode");
    return v;
}

static bool one(const Args &a, Evidence &ev, std::vector<int64_t> cfg, const char *part) {
    Case c; c.cfg = std::move(cfg);
    CurrentScope scope(c);
    Verdict v = run(c);
    ev.note(c.digest(), v.nontrivial && v.ok, [&] { return c.to_text(); });
    ev.count(std::string(part) + ":cases");
    if (!v.ok) { write_file(a.failing, std::string("# ") + part + ": " + v.why + "\n" + c.to_text()); fprintf(stderr, "FAIL part=%s %s\n", part, v.why.c_str()); return false; }
    return true;
}

int main(int argc, char **argv) {
    Args a = parse_args(argc, argv);
    if (!a.replay.empty()) return replay_case(a, run);
    zygote_start(run);   // before any code under test runs in this process
    Current::install(a.failing);
    Evidence ev;
    ev.rule = "derive_session_event (built without LLTD_TESTING) on harness-built frames in a malloc(1500) buffer. Enumerated: every (n, position) layout (quick: n <= 40; thorough: n <= 240, 29161 layouts) "
              "x 15 session-table classes (re-added under an 'older' transaction id, cleared after a gap, the mapper known under other generations in earlier slots, null, empty, same/other transaction, other generation, other mapper, full, the matching session behind a freed slot, the matching session already complete); all 256 opcodes x real destination broadcast/unicast. Random: n 0..240, position, near-miss decoys, all-zero/broadcast/multicast/mapper addresses as list entries, own address straddling two slots, "
              "count larger than the frame holds, generation/xid, ToS. non-trivial = Discover with n >= 2 and own address at index >= 1, or a decoy present; distinct = digest of the case";
    bool ok = true;
    int nmax = a.quick() ? 40 : 240;
    long k = 0;
    for (int n = 0; n <= nmax && ok; n++)
        for (int p = -1; p < n && ok; p++)
            for (int t = 0; t < T_NCLASSES && ok; t++, k++) {
                if (k % a.nshards != a.shard) continue;
                ok = one(a, ev, {n, p, (n + p + t) % 4 == 0 ? 3 : 0, t, OP_DISCOVER, n & 1, 1, -1, 0x1234, 0x0042, 1, (n + t) % 3 == 0 ? 2 : 0, 0, std::vector<int64_t>{0, 0, 59, 61, 500}[(size_t)(n + 2 * p + t + 2) % 5], std::vector<int64_t>{0, 0, 1, 2}[(size_t)(n + p + 3 * t + 1) % 4], (n * 5 + p + t) % 3 == 0 ? (n + t) % 6 : 0, (n + p + 2 * t) % 3, (n + 3 * p + t) % 5 == 0 ? 1 + (n + p) % 3 : 0}, "c11-layouts");
            }
    for (int opc = 0; opc < 256 && ok; opc++)
        for (int bc = 0; bc < 4 && ok; bc++) {   // real destination broadcast? x Ethernet destination broadcast?
            if ((opc * 4 + bc) % a.nshards != a.shard || opc == OP_DISCOVER) continue;
            ok = one(a, ev, {3, 1, 0, (opc + bc) % T_NCLASSES, opc, opc & 1, bc & 1, -1, 7, 9, bc >> 1, 0, (opc % 5) == 1}, "c11-opcodes");
        }
    if (ok) {
        auto gen = rc::gen::exec([] {
            Case c;
            int64_t n = *gx::bnd({0, 1, 2, 3, 239, 240}, 0, 240, 1, 2);
            int64_t p = n == 0 ? -1 : *gx::weighted<int64_t>({{1, rc::gen::just<int64_t>(-1)}, {1, rc::gen::just<int64_t>(0)}, {1, rc::gen::just<int64_t>(n - 1)}, {3, gx::range<int64_t>(0, n - 1)}});
            int64_t held = *gx::chance(25) ? *gx::range<int64_t>(0, n) : -1;
            int64_t opc = *gx::weighted<int64_t>({{12, rc::gen::just<int64_t>(0)}, {1, rc::gen::just<int64_t>(8)}, {1, rc::gen::just<int64_t>(1)}, {1, gx::range<int64_t>(0, 255)}});
            c.cfg = {n, p, *gx::pick({0, 0, 1, 2, 3}), *gx::range<int64_t>(0, T_NCLASSES - 1), opc, *gx::pick({0, 1}), *gx::pick({0, 1}), held,
                     *gx::bnd({0, 1, 0xFFFF}, 0, 0xFFFF, 1, 1), *gx::bnd({0, 1, 0xFFFF}, 0, 0xFFFF, 1, 1), *gx::pick({0, 1}), *gx::pick({0, 0, 1, 3}), *gx::pick({0, 0, 0, 0, 1}), *gx::pick({0, 0, 0, 1, 59, 60, 61, 62, 500}), *gx::pick({0, 0, 0, 1, 2}), *gx::pick({0, 0, 0, 0, 1, 2, 3, 4, 5}), *gx::pick({0, 0, 1, 2}), *gx::pick({0, 0, 0, 0, 1, 2, 3})};
            return c;
        });
        ok = run_cases(a, ev, "c11-random", a.n(600000, 4000000), 100, gen, run);
    }
    ev.write(a.out);
    return ok ? 0 : 1;
}
