// C01 quick tier: rapidcheck-driven structured cases through exec_c01 (seed-deterministic).
#include "tgen.hpp"

using namespace gx;

static rc::Gen<Case> case_gen() {
    return rc::gen::exec([] {
        Case c;
        int64_t mtu = *bnd({576, 576, 577, 1500, 1500, 1514, 9000, 9216, 1492, 1280, 578, 579, 580, 581}, 576, 9216, 4, 1);   // every residue of (MTU-36) mod 6, (MTU-34) mod 14 and mod 20 among the cheap ones
        int64_t own = 0x020000000000LL | *range<int64_t>(1, 0xFFFFFF);
        c.cfg = {mtu, *pick({0, 0, 1}), own, *pick({0, 0, 0, 1})};
        c.blobs = {*bytes(0, 40), *bytes(0, 40), *bytes(0, 900), *chance(25) ? *bytes(500, 2400) : *bytes(0, 80), *bytes(0, 64)};   // friendly name: sometimes longer than one (or four) frames
        // now and then a name that starts like a byte-order mark or with a NUL unit (text in some encoding, as platforms hand it over)
        for (size_t bi : {(size_t)0, (size_t)3}) if (*chance(8) && c.blobs[bi].size() >= 4) { static const std::vector<Bytes> pre = {{0xFF, 0xFE}, {0xFE, 0xFF}, {0xEF, 0xBB, 0xBF}, {0x00, 0x00}}; const Bytes &p = pre[(size_t)*range<int>(0, 3)]; std::copy(p.begin(), p.end(), c.blobs[bi].begin()); }
        Mac ownm = mac_from_u64((uint64_t)own);
        int n = *range<int>(1, 24);
        auto steps = *rc::gen::resize(n, rc::gen::container<std::vector<Op>>(rc::gen::exec([=] {
            Op o;
            int k = *range<int>(0, 11);
            if (k == 11) { o.kind = 13; o.a = {*bnd({15, 16, 17, 18, 33}, 1, 40, 3, 1), *pick({0, 1, 7}), *pick({0, 1})}; return o; }
            if (k == 10) { o.kind = 12; o.a = {*bnd({26, 27, 28, 72, 73, 74, 75, 147, 459, 460, 1023, 1024, 1025, 1100}, 0, 500, 3, 1), *range<int64_t>(0, 1000), *pick({0, 1, 1}), *pick({1, 1, 2, 16, 40, 48})}; return o; }
            if (k == 0 && *chance(50)) { o.kind = 14; o.a = {*pick({0x0E, 0x11, 0x11, 0x13}), *pick({1, 7, 0xFFFF}), *pick({0, 1, 1, 2, 3})}; return o; }
            if (k == 0) { o.kind = 10; return o; }
            if (k == 1) { o.kind = 11; o.a = {*bnd({0, 1, 999, 1000, 30000, 31000, 61000, 120000}, 0, 120000, 1, 1)}; return o; }
            o.kind = 9;
            o.blob = c01_frame((size_t)mtu, ownm, *frame_t_gen());
            return o;
        })));
        c.ops = steps;
        return c;
    });
}

static Verdict run(const Case &c) {
    Verdict v;
    C01Stats s = exec_c01(c);
    if (!s.fail.empty()) v.fail(s.fail);
    v.nontrivial = s.deep > 0 && s.port_calls > 0;
    if (s.deep) v.cls("reaches-deep-handler");
    v.cls(fmt("frames-%s", s.frames == 0 ? "0" : s.frames < 4 ? "1-3" : s.frames < 12 ? "4-11" : "12+"));
    return v;
}

int main(int argc, char **argv) {
    Args a = parse_args(argc, argv);
    if (!a.replay.empty()) return replay_case(a, run);
    zygote_start(run);   // before any code under test runs in this process
    Current::install(a.failing);
    Evidence ev;
    ev.rule = "structured cases: MTU x attribute set x <=24 steps of templated frames (every opcode/ToS, wire counts 0/1/fits/fits+1/0xFFFF/any, "
              "truncation 0..MTU, byte mutations, raw bytes), ticks, clock jumps; each frame goes through the Darwin flow (classifier, automata, "
              "parseFrame, tick), the Linux loop flow and the ESP32 entry (exact-size copy) on malloc(MTU) receive buffers under ASan+UBSan; "
              "ledger must be empty after teardown. non-trivial = >=1 frame >=32 bytes with ToS 0/1 and opcode Discover/Hello/Emit/Query/"
              "QueryLargeTlv and >=1 allocation or transmission by the core; distinct = digest of the step list";
    bool ok = run_cases(a, ev, "c01-structured", a.n(40000, 800000), 100, case_gen(), run);
    ev.write(a.out);
    return ok ? 0 : 1;
}
