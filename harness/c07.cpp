// C07 — Every observed probe is reported to the mapper exactly once.
#include "hist.hpp"

enum { K_BURST = 20, K_ROUND = 21 };   // burst: a = first_id, count, target ; round: a = first seq, path override, re-observe a reported one, re-observe an undelivered one, Ethernet destination of the Queries

struct ObsKey { uint64_t e, r; bool operator<(const ObsKey &o) const { return std::tie(e, r) < std::tie(o.e, o.r); } };   // keyed by the addresses themselves (two identities may stand for one address)

// identities 0xFFFFF0..3: the responder's own address, all-zero, all-ones, the first station's address - observations like any other
static Mac g_own7, g_st0;
static Mac obs_special(int id, uint64_t base) {
    switch (id & 0xFFFFFF) {
        case 0xFFFFF0: return g_own7;
        case 0xFFFFF1: return ZEROMAC;
        case 0xFFFFF2: return BCAST;
        case 0xFFFFF3: return g_st0;
        default:
            if ((id & 0xFFFF00) == 0xFFFE00) return mac_from_u64((base + (uint64_t)(id & 0xFF)) ^ 0xFFFF00000000ULL);   // twin: same last four octets, other first two
            return mac_from_u64(base + (uint64_t)(id & 0xFFFFFF));
    }
}
static Mac obs_esrc(int id) { return obs_special(id, 0x0400CC000000ULL); }
static Mac obs_rsrc(int id) { return obs_special(id, 0x0400DD000000ULL); }

static Verdict run(const Case &c) {
    Verdict v;
    HCfg h = HCfg::from_case(c);
    World w;
    h.apply_global(w);
    int ifi = w.add_if(h.ifcfg());
    Mac own = h.ownmac(), other = mac_from_u64(0x0400EE000001ULL);
    g_own7 = own; g_st0 = h.st_real(0);
    size_t cap = (h.mtu - 34) / 20;
    Shadow sh;
    OtherIf oif;
    std::map<ObsKey, QDesc> obs;        // model: what must be reported
    bool had_dup = false, had_foreign = false;
    int rounds = 0, multi_rounds = 0, nontriv_rounds = 0, maxk = 0;

    auto observe = [&](int eid, int rid, int target) {
        bool probe = ((eid + rid) & 1) != 0;     // kind is a function of the key: duplicates are exact duplicates
        // target 0: addressed to this station at both levels; 1: to another station at both levels;
        // 2: Ethernet destination own, real destination another station (NOT for us: LLTD addresses a probe by its real destination);
        // 3: Ethernet destination another station, real destination own (for us, e.g. seen on a shared segment)
        Mac edst = (target == 0 || target == 2) ? own : other, rdst = (target == 0 || target == 3) ? own : other;
        Bytes f = mk_simple(edst, obs_esrc(eid), 0, probe ? OP_PROBE : OP_TRAIN, rdst, obs_rsrc(rid), 0);
        std::vector<Ev> tx = sends_only(w.deliver(ifi, f));
        if (!tx.empty()) { v.fail("a Probe/Train made the responder transmit"); return; }
        if (target == 0 || target == 3) {
            ObsKey k{mac_to_u64(obs_esrc(eid)), mac_to_u64(obs_rsrc(rid))};
            if (obs.count(k)) had_dup = true;
            else obs[k] = QDesc{(uint16_t)(probe ? 1 : 0), obs_rsrc(rid), obs_esrc(eid), edst};
        } else had_foreign = true;
    };
    // one Query; returns false on oracle failure
    int bridged_override = -1, query_edst = 0;
    auto query = [&](uint16_t seq, QResp &q) -> bool {
        Op op; op.kind = K_QUERY; op.a = {-1, seq};
        Shadow shq = sh;
        if (bridged_override >= 0) shq.bridged = bridged_override != 0;    // the rule is per Query frame: Ethernet source != real source => broadcast
        Built b = build_frame(h, op, shq);
        // the Query is for this station when its real destination says so; the Ethernet destination may be another unicast address (a switch flooding) or broadcast
        if (query_edst == 1) memcpy(&b.frame[0], other.b, 6); else if (query_edst == 2) memcpy(&b.frame[0], BCAST.b, 6);
        std::vector<Ev> tx = sends_only(w.deliver(ifi, b.frame));
        shadow_update_sem(sh, SEM_COMMAND, b);
        if (tx.size() != 1) { v.fail(fmt("Query seq %u answered by %zu frames, expected 1", seq, tx.size())); return false; }
        const Bytes &f = tx[0].data;
        Hdr hd;
        if (!dec_hdr(f, hd) || hd.op != OP_QUERYRESP) { v.fail("reply to Query is not a QueryResp"); return false; }
        std::string e = dec_qresp(f, q);
        if (!e.empty()) { v.fail(e); return false; }
        if (f.size() > h.mtu) { v.fail(fmt("QueryResp of %zu bytes exceeds MTU %zu", f.size(), h.mtu)); return false; }
        if (hd.seq != seq) { v.fail(fmt("QueryResp sequence number %u != Query's %u", hd.seq, seq)); return false; }
        if (hd.rsrc != own || hd.esrc != own) { v.fail("QueryResp not sourced from own address"); return false; }
        Mac want = b.bridged ? BCAST : h.st_real(b.station);
        if (hd.rdst != want || hd.edst != want) { v.fail(fmt("QueryResp destination %s/%s, expected %s (%s mapper)", hd.edst.str().c_str(), hd.rdst.str().c_str(), want.str().c_str(), b.bridged ? "bridged" : "direct")); return false; }
        if (hd.ethertype != 0x88D9 || hd.ver != 1 || hd.res != 0 || hd.tos != 0) { v.fail("QueryResp base header malformed"); return false; }
        if (q.more && q.n == 0) { v.fail("QueryResp says more remain but carries no descriptor (the mapper would loop forever)"); return false; }
        return true;
    };

    for (size_t i = 0; i < c.ops.size() && v.ok; i++) {
        const Op &op = c.ops[i];
        switch (op.kind) {
            case K_ADVANCE: vp_set_now_ms(vp_now_ms() + (uint64_t)op.arg(0)); break;
            case K_PROBE: observe((int)op.arg(0), (int)op.arg(1), (int)(op.arg(3) & 3)); break;
            case K_BURST:
                for (int64_t k = 0; k < std::min<int64_t>(op.arg(1), 400) && v.ok; k++) observe((int)(op.arg(0) + k), (int)((op.arg(0) + k) % 3), (int)(op.arg(2) & 3));
                break;
            case K_ROUND: {
                rounds++;
                bridged_override = (int)op.arg(1, -1);
                query_edst = (int)op.arg(4, 0);
                size_t k = obs.size();
                maxk = std::max(maxk, (int)k);
                std::vector<QDesc> got;
                uint16_t seq = (uint16_t)op.arg(0);
                if (!seq) seq = 1;
                bool more = true;
                std::vector<QDesc> reobserved;
                for (size_t n = 0; n < k + 12 && more && v.ok; n++) {
                    QResp q;
                    if (!query(seq, q)) break;
                    got.insert(got.end(), q.d.begin(), q.d.end());
                    more = q.more;
                    // a station that was just reported is seen again before the next Query of the round: that is a new observation
                    if (more && op.arg(2) > 0 && reobserved.size() < 8 && !q.d.empty()) {
                        const QDesc &dsc = q.d[(size_t)(op.arg(2) % (int64_t)q.d.size())];
                        Bytes f = mk_simple(own, dsc.esrc, 0, dsc.type ? OP_PROBE : OP_TRAIN, own, dsc.rsrc, 0);
                        (void)w.deliver(ifi, f);
                        reobserved.push_back(QDesc{dsc.type, dsc.rsrc, dsc.esrc, own});
                    }
                    // a station whose observation has NOT been delivered yet is seen again in the middle of the round: still one observation
                    if (more && op.arg(3) > 0) {
                        int64_t skip = op.arg(3);
                        for (auto &kv : obs) {
                            bool delivered = false;
                            for (auto &g : got) if (g.rsrc == kv.second.rsrc && g.esrc == kv.second.esrc) { delivered = true; break; }
                            if (delivered || --skip > 0) continue;
                            (void)w.deliver(ifi, mk_simple(kv.second.edst, kv.second.esrc, 0, kv.second.type ? OP_PROBE : OP_TRAIN, own, kv.second.rsrc, 0));
                            had_dup = true;
                            break;
                        }
                    }
                    seq = (uint16_t)(seq == 0xFFFF ? 1 : seq + 1);
                }
                if (!v.ok) break;
                if (more) { v.fail(fmt("step %zu: after %zu Queries the responder still says more remain (%zu observations)", i, k + 12, k)); break; }
                std::vector<QDesc> want;
                for (auto &kv : obs) want.push_back(kv.second);
                want.insert(want.end(), reobserved.begin(), reobserved.end());
                std::sort(want.begin(), want.end());
                std::sort(got.begin(), got.end());
                if (got != want) {
                    std::string d;
                    std::vector<QDesc> missing, extra;
                    std::set_difference(want.begin(), want.end(), got.begin(), got.end(), std::back_inserter(missing));
                    std::set_difference(got.begin(), got.end(), want.begin(), want.end(), std::back_inserter(extra));
                    v.fail(fmt("step %zu: Query round reported %zu descriptors for %zu observations (capacity %zu per frame): %zu missing%s%s, %zu invented or duplicated%s%s",
                               i, got.size(), want.size(), cap, missing.size(), missing.empty() ? "" : " e.g. ", missing.empty() ? "" : missing[0].str().c_str(),
                               extra.size(), extra.empty() ? "" : " e.g. ", extra.empty() ? "" : extra[0].str().c_str()));
                    break;
                }
                if (k > cap) multi_rounds++;
                if (k >= 2 && (had_dup || had_foreign)) nontriv_rounds++;
                obs.clear(); had_dup = had_foreign = false;
                QResp q;   // a further Query must be empty
                if (query(seq, q) && (q.n != 0 || q.more)) v.fail(fmt("step %zu: Query after a completed round still reports %u descriptors", i, q.n));
                break;
            }
            case K_OTHERIF: oif.step(w, h, op); break;   // another interface of the host observes, is queried and is reset on its own
            default: {
                Built b = build_frame(h, op, sh);
                if (!b.is_frame) break;
                Sem sem = frame_sem(b.frame);
                if (sem == SEM_COMMAND && sh.active >= 0 && sh.active != b.station) break;
                if (op.kind == K_QUERY) break;   // Queries only through rounds
                (void)w.deliver(ifi, b.frame);
                if (op.kind == K_RESET && op.arg(1) == 0) { obs.clear(); had_dup = had_foreign = false; }   // topology Reset discards the record
                shadow_update_sem(sh, sem, b);
            }
        }
    }
    v.nontrivial = nontriv_rounds > 0;
    if (rounds) v.cls("has-round");
    if (multi_rounds) v.cls("round-with-k>capacity");
    if (nontriv_rounds) v.cls("round-with-dup-or-foreign");
    v.cls(maxk == 0 ? "maxk=0" : maxk <= 2 ? "maxk=1-2" : (size_t)maxk <= cap ? "maxk<=capacity" : "maxk>capacity");
    return v;
}

int main(int argc, char **argv) {
    Args a = parse_args(argc, argv);
    if (!a.replay.empty()) return replay_case(a, run);
    zygote_start(run);   // before any code under test runs in this process
    Current::install(a.failing);
    Evidence ev;
    ev.rule = "MTU (weighted to 576: capacity 27) x Discover from mapper (direct/bridged) x k distinct Probe/Train observations (k from {0,1,2,cap-1,cap,cap+1,2cap+1,300} and random), "
              "exact duplicates, frames addressed to other stations, interleaved Discover/Emit/QueryLargeTlv/Reset; the model mapper queries while 'more' is set. "
              "Union of descriptors over the round must equal the model set exactly. non-trivial = round with k >= 2 and a duplicate or foreign frame present; "
              "rounds with k > capacity are counted separately (histogram c07-histories:round-with-k>capacity); distinct = digest of the case";
    auto gen = rc::gen::exec([] {
        HCfg h = *hg::cfg_gen();
        // capacity floor((MTU-34)/20): include MTUs where (MTU-34) is an exact multiple of 20 (594, 1514, 9214) and its neighbours
        h.mtu = (size_t)*gx::weighted<int64_t>({{6, gx::pick({576, 576, 577, 593, 594, 595, 612, 613, 614, 1492, 1500, 1513, 1514, 1515})}, {3, gx::range<int64_t>(576, 900)}, {1, gx::pick({9214, 9216})}});
        size_t cap = (h.mtu - 34) / 20;
        Case c; h.to_case(c);
        Op d; d.kind = K_DISCOVER; d.a = {0, 0, *hg::gen_gen(), 1, *gx::pick({0, 0, 1}), 0, -1};
        c.ops.push_back(d);
        int nseg = *gx::range<int>(1, 4);
        int next_id = 0;
        for (int s = 0; s < nseg; s++) {
            int64_t k = *gx::bnd({0, 1, 2, (int64_t)cap - 1, (int64_t)cap, (int64_t)cap + 1, 2 * (int64_t)cap + 1, 300}, 0, 300, 2, 1);
            if (k > 300) k = 300;
            // distinct observations in bursts, with duplicates / foreign frames / other traffic sprinkled in
            int64_t left = k;
            while (left > 0) {
                int64_t n = std::min<int64_t>(left, *gx::bnd({1, 2, 5, 30}, 1, 120, 1, 1));
                Op b; b.kind = K_BURST; b.a = {next_id, n, 0};
                c.ops.push_back(b);
                next_id += (int)n; left -= n;
                int extras = *gx::range<int>(0, 3);
                for (int x = 0; x < extras; x++) {
                    int what = *gx::range<int>(0, 13);
                    Op o;
                    if (what == 0 && next_id > 0) { int id = *gx::range<int>(0, next_id - 1); o.kind = K_PROBE; o.a = {id, id % 3, 0, 0}; }   // exact duplicate (maybe of an already reported one: then it is new again)
                    else if (what == 1) { o.kind = K_BURST; o.a = {*gx::range<int>(400, 800), *gx::range<int>(1, 5), *gx::pick({1, 1, 2, 3})}; }   // addressed to another station (both levels or one of them)
                    else if (what == 2) { o.kind = K_DISCOVER; o.a = {0, *gx::pick({0, 1}), *hg::gen_gen(), 1, d.a[4], 0, -1}; }
                    else if (what == 3) { o.kind = K_EMIT; o.a = {-1, *hg::seq_gen(), -1}; o.blob = *hg::emit_descs(3); }
                    else if (what == 4) { o.kind = K_QLT; o.a = {-1, *hg::seq_gen(), *gx::pick({0x0E, 0x11, 0x13}), 0, 0}; }
                    else if (what == 6 && next_id > 0) { int id = *gx::range<int>(0, next_id - 1); o.kind = K_PROBE; o.a = {id, (id + 1 + *gx::range<int>(0, 1)) % 3 + 3, 0, 0}; }   // same Ethernet source as an earlier observation, another real source: a distinct observation
                    else if (what == 7) { o.kind = K_RESET; o.a = {0, 1, 1}; }   // Reset of the quick-discovery service: releases the mapper, but the topology observations stay
                    else if (what == 8) { o.kind = K_SHELL; o.a = {*gx::range<int>(0, 2), 1, *gx::pick({6, 6, 2, 4}), *hg::seq_gen(), 0}; }   // quick discovery has no Query/Emit/Probe: such a frame is neither answered nor does it consume the record
                    else if (what == 10) { o.kind = K_PROBE; o.a = {*gx::pick({0, 1, 0xFFFFF0, 0xFFFFF1, 0xFFFFF3}), *gx::pick({0xFFFFF0, 0xFFFFF0, 0xFFFFF1, 0xFFFFF2, 0xFFFFF3}), 0, 0}; }   // origin claimed: the responder itself, nobody, everybody, the mapper
                    else if (what == 11 && next_id > 0) { int id = *gx::range<int>(0, std::min(next_id, 256) - 1); o.kind = K_PROBE; if (*gx::chance(50)) o.a = {0xFFFE00 + id, id % 3, 0, 0}; else o.a = {id, 0xFFFE00 + id % 3, 0, 0}; }   // twin of an observed address: a distinct observation
                    else if (what == 13) { o.kind = K_SHELL; o.a = {*gx::range<int>(0, 2), 0, *gx::pick({9, 9, 10, 5, 7, 12, 1}), *gx::pick({0, 0, 1, 7}), 0}; }   // Charge, Flat, ACK, QueryResp ... addressed to this station: not observations
                    else if (what == 12) { o.kind = K_ADVANCE; o.a = {*gx::pick({1000, 30000, 61000, 120000, 600000})}; }   // time passes: an observation waits for the next Query however long that takes
                    else if (what == 9) { o.kind = K_OTHERIF; o.a = {*gx::pick({0, 3, 5, 5, 5, 1, 2}), 0, *gx::range<int>(1, 400)}; }
                    else { o.kind = K_HELLO; o.a = {1, 0, 7}; }
                    c.ops.push_back(o);
                }
            }
            Op r; r.kind = K_ROUND; r.a = {*hg::seq_gen(), *gx::pick({-1, -1, -1, 0, 1}), *gx::pick({0, 0, 1, 5}), *gx::pick({0, 0, 1, 2, 30}), *gx::pick({0, 0, 0, 1, 2})};
            c.ops.push_back(r);
            if (*gx::chance(35)) {   // Reset in between (no Query before it), then the mapper comes back and the same stations are seen again
                int first = next_id;
                Op b; b.kind = K_BURST; b.a = {next_id, *gx::range<int>(1, 40), 0}; next_id += (int)b.a[1];
                c.ops.push_back(b);
                Op rs; rs.kind = K_RESET; rs.a = {0, 0, 1};
                int variant = *gx::range<int>(0, 9);
                if (variant == 0) { Op rq; rq.kind = K_RESET; rq.a = {0, 1, 1}; c.ops.push_back(rq); }   // the quick service is reset first (mapper released), then the topology service: the record goes all the same
                if (variant == 1) { c.ops.push_back(rs); Op b2; b2.kind = K_BURST; b2.a = {next_id, *gx::range<int>(1, 5), 0}; next_id += (int)b2.a[1]; c.ops.push_back(b2); }   // Reset, observations while no mapper is known, Reset again
                if (variant == 2) rs.a = {*gx::range<int>(1, 2), 0, *gx::pick({0, 1})};   // the Reset comes from a station that is not the mapper, broadcast or unicast
                c.ops.push_back(rs);
                c.ops.push_back(d);
                if (*gx::chance(70)) { Op again; again.kind = K_BURST; again.a = {first, *gx::range<int>(1, (int)b.a[1]), 0}; c.ops.push_back(again); }   // re-observation after the Reset must be reported
                Op r2; r2.kind = K_ROUND; r2.a = {*hg::seq_gen(), -1};
                c.ops.push_back(r2);
            }
        }
        if (*gx::chance(12)) {   // the very first frames this interface ever sees are Probes: the mapper's Discover comes after the first burst (observations made before it are reported like any other)
            for (size_t k = 1; k < c.ops.size(); k++) if (c.ops[k].kind == K_BURST && c.ops[k].arg(2) == 0) { Op first = c.ops[0]; c.ops.erase(c.ops.begin()); c.ops.insert(c.ops.begin() + (long)k, first); break; }
        }
        return c;
    });
    bool ok = run_cases(a, ev, "c07-histories", a.n(48000, 400000), 100, gen, run);
    ev.write(a.out);
    return ok ? 0 : 1;
}
