// C18 — Platform faults degrade service gracefully and never wedge the responder (fault enumeration).
#include "hist.hpp"

// cfg[8] fault kind: 7 = k-th allocation fails while every transmit is refused; 0 none, 1 fail k-th allocation, 2 fail every allocation from the k-th on, 3 refuse k-th transmit, 4 refuse every transmit,
//                    5 failing getters (mask in cfg[9]), 6 the k-th call of ONE getter fails once (cfg[9] = bit number * 256 + k)          cfg[9] = k or mask
// cfg[10] constructor test: 0 none, 1 mapping, 2 enumeration, 3 session, 4 session table, 5 all four as the Darwin daemon creates them; cfg[9] = which allocation fails
struct Fault { int kind = 0; int64_t arg = 0; };

struct Outcome {
    std::vector<std::vector<Ev>> per_step;   // transmit events while the fault was active
    uint64_t allocs = 0, sends = 0, alloc_failed = 0, refused = 0;
    uint32_t getter_calls = 0;
    long first_hit = -1;                     // step at which the injected fault first took effect
    std::set<size_t> faulted_steps;          // steps during which a fault was (or may have been) active
    std::vector<int> stations;               // sender station per step (-1: none)
    std::vector<uint32_t> getter_calls_per_bit = std::vector<uint32_t>(16, 0);
    std::vector<Bytes> frames;               // zero-extended received frames (for the solicitation budget)
    std::string err;
};

static std::vector<Op> continuation(const HCfg &) {
    std::vector<Op> c;
    Op d; d.kind = K_DISCOVER; d.a = {1, 0, 0, 9, 0, 0, -1}; c.push_back(d);                 // generation 0 from a new station
    Op p; p.kind = K_PROBE; p.a = {77, 1, 1, 0}; c.push_back(p);
    Op q; q.kind = K_QUERY; q.a = {1, 0x0203}; c.push_back(q);
    Op l; l.kind = K_QLT; l.a = {1, 0x0204, 0x0E, 0, 0}; c.push_back(l);
    Op l2; l2.kind = K_QLT; l2.a = {1, 0x0205, 0x11, 0, 0}; c.push_back(l2);
    Op e; e.kind = K_EMIT; e.a = {1, 0x0206, -1}; e.blob = Bytes{1, 0, 4, 0, 0xCC, 0, 0, 1, 4, 0, 0xF0, 0, 0, 1, 0, 2, 4, 0, 0xCC, 0, 0, 2, 4, 0, 0xF0, 0, 0, 2}; c.push_back(e);
    Op q2; q2.kind = K_QUERY; q2.a = {1, 0x0207}; c.push_back(q2);
    return c;
}

static uint32_t g_nth_bit_for_checks = 0;
static void getter_mask_for_checks(uint32_t b) { g_nth_bit_for_checks = b; }

static Outcome exec(const Case &c, const HCfg &h, Fault f, bool with_recovery) {
    g_nth_bit_for_checks = 0;
    Outcome o;
    World w;
    HCfg hh = h;
    uint32_t getter_mask = (f.kind == 5 || f.kind == 8) ? (uint32_t)f.arg : f.kind == 9 ? (uint32_t)VF_MTU : 0;
    uint32_t nth_bit = f.kind == 6 ? (1u << ((f.arg >> 8) & 15)) : 0;
    hh.fail = 0;
    hh.apply_global(w);
    IfCfg ic = hh.ifcfg();
    // When the MTU cannot be obtained the daemons size their receive buffer with the same fallback (1500) the core uses (linux-main.c:177-191); a buffer smaller
    // than that next to a failing MTU getter is not a situation a port can produce.
    if ((getter_mask & VF_MTU) || nth_bit == VF_MTU) ic.rx_capacity = std::max<size_t>(ic.mtu, 1500);
    int P = w.add_if(ic), F = w.add_if(ic);
    w.ctx(P)->fail = getter_mask & 0xFFFF;
    w.ctx(P)->fail_style = f.kind == 8 ? 1 : f.kind == 9 ? 2 : 0;   // 8: the failing getters scribble over their output before they report the error; 9: the MTU getter "succeeds" with 0
    if (nth_bit) { w.ctx(P)->fail_nth_mask = nth_bit; w.ctx(P)->fail_nth = (long)(f.arg & 0xFF); getter_mask_for_checks(nth_bit); }
    vp_global()->fail = getter_mask & 0xFFFF0000u;
    Mac own = h.ownmac();
    switch (f.kind) {
        case 1: vp_fail_alloc_at((long)f.arg); break;
        case 2: vp_fail_alloc_from((long)f.arg); break;
        case 3: vp_fail_send_at((long)f.arg); break;
        case 4: vp_fail_send_always(1); break;
        case 7: vp_fail_alloc_at((long)f.arg); vp_fail_send_always(1); break;   // two faults at once: the k-th allocation fails while no transmit succeeds
        default: break;
    }
    Shadow sh;
    OtherIf oif;
    for (size_t i = 0; i < c.ops.size(); i++) {
        const Op &op = c.ops[i];
        if (op.kind == K_ADVANCE) { vp_set_now_ms(vp_now_ms() + (uint64_t)op.arg(0)); o.per_step.push_back({}); continue; }
        if (op.kind == K_SETICON) { w.set_icon(op.blob); o.per_step.push_back({}); continue; }
        if (op.kind == K_OTHERIF) { oif.step(w, hh, op); o.per_step.push_back({}); continue; }   // a frame for another interface of the host (a fault may hit it there): nothing of it may show here
        Built b = build_frame(h, op, sh);
        if (!b.is_frame) { o.per_step.push_back({}); continue; }
        if (b.frame.size() > h.mtu) b.frame.resize(h.mtu);
        uint64_t hits_before = vp_alloc_failed() + vp_send_refused();
        uint32_t calls_before = w.ctx(P)->calls_mask | vp_global()->calls_mask;
        // an Emit whose count exceeds what it carries arrives as the daemons deliver it: in a buffer of exactly MTU octets
        std::vector<Ev> evs = w.deliver(P, b.frame, (op.kind == K_EMIT && op.arg(2, -1) >= 0) ? DAEMON : CLEAN);
        if (o.first_hit < 0 && (vp_alloc_failed() + vp_send_refused() > hits_before || (((w.ctx(P)->calls_mask | vp_global()->calls_mask) & ~calls_before) & getter_mask) ||
                                (nth_bit && w.ctx(P)->fail_nth == 0))) o.first_hit = (long)i;
        if (o.first_hit == (long)i || (o.first_hit >= 0 && (f.kind == 2 || f.kind == 4 || f.kind == 5 || f.kind == 7 || f.kind == 8 || f.kind == 9))) o.faulted_steps.insert(i);
        o.frames.resize(i + 1); o.frames[i] = b.frame; o.frames[i].resize(h.mtu, 0);
        o.stations.resize(i + 1, -1); o.stations[i] = b.station;
        shadow_update_sem(sh, frame_sem(b.frame), b);
        if (vp_ledger_violations() && o.err.empty()) o.err = fmt("step %zu: %s", i, vp_ledger_last_violation());
        // frames sent while the fault is active must still be well-formed (MTU bound waived when the MTU getter fails; zero source accepted when the address getter fails)
        for (auto &e : evs) {
            if (e.kind == VE_SLEEP || !o.err.empty()) continue;
            uint32_t gm = getter_mask | g_nth_bit_for_checks;
            std::string wf = wellformed(e.data, h.mtu, own, !(gm & VF_MTU));
            if (!wf.empty() && (gm & VF_MAC)) wf = wellformed(e.data, h.mtu, ZEROMAC, !(gm & VF_MTU));
            if (!wf.empty()) o.err = fmt("step %zu: frame sent under the fault is malformed: %s", i, wf.c_str());
        }
        o.per_step.push_back(std::move(evs));
    }
    o.allocs = vp_alloc_calls(); o.sends = vp_send_count(); o.alloc_failed = vp_alloc_failed(); o.refused = vp_send_refused();
    o.getter_calls = w.ctx(P)->calls_mask | vp_global()->calls_mask;
    for (int k = 0; k < 16; k++) o.getter_calls_per_bit[k] = w.ctx(P)->calls[k];
    if (!with_recovery || !o.err.empty()) return o;
    // ---- the fault clears; a Reset arrives; from now on P must be indistinguishable from a fresh instance
    vp_fail_alloc_at(0); vp_fail_alloc_from(0); vp_fail_send_at(0); vp_fail_send_always(0);
    w.ctx(P)->fail = 0; vp_global()->fail = 0; w.ctx(P)->fail_nth_mask = 0; w.ctx(P)->fail_nth = 0;
    Mac m = h.st_real(2);
    Bytes reset = mk_simple(BCAST, m, 0, OP_RESET, BCAST, m, 0);
    (void)w.deliver(P, reset);
    size_t n_other = 0;   // the other interfaces of the host (if the scenario used any) are reset as well: each of them then holds exactly its record, like a fresh one
    for (int idx : oif.idxs) if (idx >= 0) { (void)w.deliver(idx, reset); n_other++; }
    size_t pb = vp_live_blocks(), pbytes = vp_live_bytes();
    (void)w.deliver(F, reset);
    size_t fb = vp_live_blocks() - pb, fbytes = vp_live_bytes() - pbytes;
    if (vp_ledger_violations()) { o.err = vp_ledger_last_violation(); return o; }
    if (pb != 1 + n_other || fb != 1 || pbytes != (1 + n_other) * fbytes) { o.err = fmt("after the fault cleared and a Reset, %zu blocks / %zu bytes remain allocated; a fresh interface holds %zu / %zu (leak or lost record)", pb, pbytes, fb, fbytes); return o; }
    Shadow sc;
    std::vector<Op> cont = continuation(h);
    for (size_t i = 0; i < cont.size(); i++) {
        Built b = build_frame(h, cont[i], sc);
        std::vector<Ev> ep = w.deliver(P, b.frame), ef = w.deliver(F, b.frame);
        for (auto &e : ep) e.ifid = 0;
        for (auto &e : ef) e.ifid = 0;
        shadow_update_sem(sc, frame_sem(b.frame), b);
        if (!(ep == ef)) { o.err = fmt("after recovery, continuation step %zu: faulted-then-Reset instance sends %zu events, fresh instance %zu (or bytes differ)", i, ep.size(), ef.size()); return o; }
    }
    if (vp_ledger_violations()) o.err = vp_ledger_last_violation();
    return o;
}

static void noop_hello(void *) {}

static Verdict run_ctor(const Case &c) {
    Verdict v;
    World w;
    int which = (int)c.c(10), k = (int)c.c(9, 1);
    vp_set_now_ms(5000);
    // cfg[7]: a complete, successfully built set of objects (another interface of the daemon) already exists and is in use when the
    // faulted construction happens; it must be unaffected and both must be destroyable afterwards
    bool earlier = c.c(7) != 0;
    size_t at_start = vp_live_blocks();
    void *m1 = nullptr, *s1 = nullptr, *e1 = nullptr, *t1 = nullptr;
    int ms0 = 0, ss0 = 0;
    if (earlier) { m1 = br_init_mapping(); s1 = br_init_session(); e1 = br_init_enumeration(); t1 = br_st_create(); }
    size_t before = vp_live_blocks();
    auto exercise = [&](void *mapping, void *session, void *enumer, void *table) {
        uint64_t last = 0; int user = 1;
        if (mapping) { br_switch_mapping(mapping, 0); br_switch_mapping(mapping, 8); }
        if (session) { br_switch_session(session, 2); br_switch_session(session, 1); }
        if (enumer) { br_switch_enumeration(enumer, 3); br_switch_enumeration(enumer, 0); }
        if (table) { Mac m = {{2, 0, 0, 0, 0, 7}}; br_st_add(table, m.b, 1, 1); }
        br_tick(mapping, enumer, table, &user, &last, noop_hello, 1);
        vp_set_now_ms(vp_now_ms() + 40000);
        br_tick(mapping, enumer, table, &user, &last, noop_hello, 1);
    };
    if (earlier) { if (!m1 || !s1 || !e1 || !t1) { v.fail("constructors failed without fault injection"); return v; } exercise(m1, s1, e1, t1); br_switch_mapping(m1, 0); br_switch_mapping(m1, 0); br_switch_session(s1, 3); br_switch_session(s1, 3); ms0 = br_aut_state(m1); ss0 = br_aut_state(s1); }
    vp_fail_alloc_at(k);
    if (which >= 1 && which <= 3) {
        void *a = which == 1 ? br_init_mapping() : which == 2 ? br_init_enumeration() : br_init_session();
        bool hit = vp_alloc_failed() > 0;
        vp_fail_alloc_at(0);
        if (!a) { if (vp_live_blocks() != before) v.fail(fmt("constructor %d returned NULL but left %zu block(s) allocated", which, vp_live_blocks() - before)); }
        else { exercise(which == 1 ? a : nullptr, which == 3 ? a : nullptr, which == 2 ? a : nullptr, nullptr); br_automata_destroy(a); }
        v.nontrivial = hit;
    } else if (which == 4) {
        void *t = br_st_create();
        bool hit = vp_alloc_failed() > 0;
        vp_fail_alloc_at(0);
        if (!t) { if (vp_live_blocks() != before) v.fail("session_table_create returned NULL but left memory allocated"); }
        else { exercise(nullptr, nullptr, nullptr, t); br_st_destroy(t); }
        v.nontrivial = hit;
    } else {
        br_darwin d{};
        d.send_hello = noop_hello; d.user = &w;
        int rc = br_darwin_init(&d);
        bool hit = vp_alloc_failed() > 0;
        vp_fail_alloc_at(0);
        if (rc == 0) { exercise(d.mapping, d.session, d.enumeration, d.table); br_darwin_destroy(&d); }
        v.nontrivial = hit;
    }
    if (v.ok && vp_ledger_violations()) v.fail(vp_ledger_last_violation());
    if (v.ok && vp_live_blocks() != before) v.fail(fmt("%zu block(s) live after the constructor path, %zu before it", vp_live_blocks(), before));
    if (earlier) {
        if (v.ok && (br_aut_state(m1) != ms0 || br_aut_state(s1) != ss0)) v.fail(fmt("the objects that already existed changed state (mapping %d -> %d, session %d -> %d) while another set was constructed under a fault", ms0, br_aut_state(m1), ss0, br_aut_state(s1)));
        if (v.ok) exercise(m1, s1, e1, t1);
        br_automata_destroy(m1); br_automata_destroy(s1); br_automata_destroy(e1); br_st_destroy(t1);
        if (v.ok && vp_ledger_violations()) v.fail(std::string("destroying the objects that existed before the faulted construction: ") + vp_ledger_last_violation());
        if (v.ok && vp_live_blocks() != at_start) v.fail(fmt("%zu block(s) still allocated after both sets of objects were destroyed", vp_live_blocks() - at_start));
        v.cls("constructor-next-to-existing-objects");
    }
    v.cls(fmt("constructor-%d-alloc-%d", which, k));
    return v;
}

static Verdict run(const Case &c) {
    if (c.c(10) != 0) return run_ctor(c);
    Verdict v;
    HCfg h = HCfg::from_case(c);
    Fault f; f.kind = (int)c.c(8); f.arg = c.c(9);
    Outcome free_run = exec(c, h, Fault(), false);
    if (!free_run.err.empty()) { v.fail("fault-free run: " + free_run.err); return v; }
    Outcome o = exec(c, h, f, true);
    if (!o.err.empty()) { v.fail(o.err); return v; }
    size_t total_free = 0;
    const bool mtu_fault = ((f.kind == 5 || f.kind == 8) && ((uint32_t)f.arg & VF_MTU)) || f.kind == 9 || (f.kind == 6 && ((f.arg >> 8) & 15) == 0);
    const size_t eff_mtu = mtu_fault ? std::max<size_t>(h.mtu, 1500) : h.mtu;
    for (size_t i = 0; i < o.per_step.size() && v.ok; i++) {
        size_t nf = sends_only(free_run.per_step[i]).size(), nx = 0;
        for (auto &e : o.per_step[i]) if (e.kind != VE_SLEEP) nx++;     // attempts (sent or refused)
        total_free += nf;
        if (o.first_hit < 0 || (long)i < o.first_hit) {
            if (!(o.per_step[i] == free_run.per_step[i])) v.fail(fmt("step %zu: trace differs from the fault-free run although the fault has not been hit yet", i));
        } else if ((long)i == o.first_hit && !mtu_fault) {
            // the affected request is answered partially or not at all
            if (nx > nf) v.fail(fmt("step %zu: %zu transmissions attempted for the request hit by the fault, %zu without the fault", i, nx, nf));
        } else if (i < o.frames.size() && !o.frames[i].empty()) {
            // later requests run on whatever state the degraded request left behind: they must still be solicited and within budget
            // (a responder that cannot learn the MTU works with 1500, as the daemons do for their buffers: its bounds are those of a 1500-octet interface)
            Budget b = budget_for(o.frames[i], eff_mtu);
            if (o.frames[i][17] == OP_EMIT && o.frames[i][15] == 0) b.probes = (int)std::min<size_t>(get16(o.frames[i].data() + 32), (eff_mtu - 34) / 14);
            std::vector<Ev> attempts;
            for (auto e : o.per_step[i]) { if (e.kind == VE_SEND_REFUSED) e.kind = VE_SEND; attempts.push_back(e); }
            std::string e = check_budget(attempts, b);
            if (!e.empty()) v.fail(fmt("step %zu (after the fault): %s", i, e.c_str()));
        }
    }
    // One mapper at a time also under faults: a request that was hit by a fault is answered partially or not at all - it does not release or
    // hand over the mapper role. Only the "must be silent" direction is judged (faults may of course prevent answers); a faulted session opener
    // may or may not have taken effect.
    if (v.ok) {
        MapperModel mm;
        for (size_t i = 0; i < o.per_step.size() && v.ok; i++) {
            if (i >= o.frames.size() || o.frames[i].empty() || i >= o.stations.size() || o.stations[i] < 0) continue;
            Sem sem = frame_sem(o.frames[i]);
            bool faulted = o.faulted_steps.count(i) != 0;
            size_t attempts = 0;
            for (auto &e : o.per_step[i]) if (e.kind != VE_SLEEP) attempts++;
            int st = o.stations[i];
            if (sem == SEM_DISCOVER) {
                int exp = mm.expect_discover(st);
                if (exp == 0 && attempts > 0) v.fail(fmt("step %zu: Discover from station %d was answered although another station is the active mapper and no Reset arrived (fault %s)", i, st, o.first_hit >= 0 && (long)i > o.first_hit ? "earlier in the history" : "not yet hit"));
                if (attempts > 0) mm.observe_discover(st, true);
                else if (faulted) mm.command(st);                    // the opener may have taken effect although its answer was lost
                else mm.observe_discover(st, false);
            } else if (sem == SEM_RESET) mm.reset();
            else if (sem == SEM_COMMAND) mm.possible.insert(st);   // a command may open a session, and whether a stranger's command takes the role over is left open by C05
        }
    }
    bool hit = f.kind == 6 ? o.first_hit >= 0 : (f.kind == 1 || f.kind == 2) ? o.alloc_failed > 0 : (f.kind == 3 || f.kind == 4) ? o.refused > 0 : f.kind == 7 ? (o.alloc_failed > 0 && o.refused > 0) : (f.kind == 5 || f.kind == 8) ? (o.getter_calls & (uint32_t)f.arg) != 0 : f.kind == 9 ? (o.getter_calls & VF_MTU) != 0 : false;
    v.nontrivial = hit && total_free >= 1;
    v.cls(fmt("fault-kind-%d", f.kind));
    if (hit) v.cls("fault-hit");
    return v;
}

static Op mk(int kind, std::vector<int64_t> a, Bytes blob = {}) { Op o; o.kind = kind; o.a = std::move(a); o.blob = std::move(blob); return o; }

static std::vector<Case> corpus() {
    std::vector<Case> out;
    Bytes d3 = {1, 0, 4, 0, 0xCC, 0, 0, 1, 4, 0, 0xF0, 0, 0, 1,  0, 5, 4, 0, 0xCC, 0, 0, 2, 4, 0, 0xF0, 0, 0, 2,  1, 0, 4, 0, 0xCC, 0, 0, 3, 4, 0, 0xF0, 0, 0, 3};
    auto base = [&](int wifi, size_t mtu) { HCfg h; h.wifi = wifi; h.mtu = mtu; h.hostname = Bytes{'h', 'o', 's', 't'}; h.ssid = Bytes{'n', 'e', 't'}; h.icon = Bytes(700, 0x42); h.friendly = Bytes{'F', 'r', 'i', 'e', 'n', 'd'}; h.hwid = Bytes{'A', 0, 'B', 0}; return h; };
    auto add = [&](HCfg h, std::vector<Op> ops) { Case c; h.to_case(c); c.ops = std::move(ops); c.cfg.resize(11, 0); out.push_back(c); };
    Op disc = mk(K_DISCOVER, {0, 0, 1, 1, 0, 0, -1}), qdisc = mk(K_DISCOVER, {0, 1, 1, 1, 0, 0, -1}), bdisc = mk(K_DISCOVER, {0, 0, 1, 1, 1, 0, -1});
    add(base(0, 1500), {disc});
    add(base(1, 1500), {disc});
    add(base(1, 576), {qdisc});
    add(base(0, 1500), {disc, mk(K_EMIT, {-1, 5, -1}, d3)});
    add(base(0, 576), {bdisc, mk(K_EMIT, {-1, 5, -1}, d3)});
    add(base(0, 1500), {disc, mk(K_PROBE, {1, 0, 1, 0}), mk(K_PROBE, {2, 1, 0, 0}), mk(K_PROBE, {3, 2, 1, 0}), mk(K_PROBE, {4, 0, 0, 0}), mk(K_PROBE, {5, 1, 1, 0}), mk(K_QUERY, {-1, 6})});
    add(base(0, 576), {disc, mk(K_QLT, {-1, 7, 0x0E, 0, 0}), mk(K_QLT, {-1, 8, 0x0E, 542, 0})});
    add(base(0, 1500), {disc, mk(K_QLT, {-1, 7, 0x11, 0, 0}), mk(K_QLT, {-1, 8, 0x13, 0, 0}), mk(K_QLT, {-1, 9, 0x77, 0, 0})});
    add(base(1, 1500), {qdisc, mk(K_QLT, {-1, 7, 0x0E, 0, 1}), mk(K_RESET, {0, 1, 1}), qdisc});
    add(base(0, 1500), {disc, mk(K_PROBE, {1, 0, 1, 0}), mk(K_EMIT, {-1, 5, -1}, d3), mk(K_QUERY, {-1, 6}), mk(K_QLT, {-1, 7, 0x0E, 0, 0}), mk(K_RESET, {0, 0, 1}), disc, mk(K_QUERY, {-1, 9})});
    {   // more observations than one QueryResp holds (27 at MTU 576): the report that says "more remain", its continuation, and a further Query
        std::vector<Op> v = {disc};
        for (int i = 0; i < 30; i++) v.push_back(mk(K_PROBE, {10 + i, i % 3, i & 1, 0}));
        v.push_back(mk(K_QUERY, {-1, 6})); v.push_back(mk(K_QUERY, {-1, 7})); v.push_back(mk(K_QUERY, {-1, 8}));
        add(base(0, 576), v);
    }
    add(base(0, 1500), {disc, mk(K_EMIT, {-1, 5, 0xFFFF}, d3), mk(K_EMIT, {-1, 6, 200}, d3)});   // declared counts far beyond what the frame (or any frame) carries - bounded by the MTU, or by 1500 when the MTU cannot be obtained
    add(base(0, 576), {disc, mk(K_EMIT, {-1, 5, 105}, d3)});
    // two interfaces of the host in use at the same time: the second one's first frames arrive (and may be hit by the fault) in the middle of the first one's session
    add(base(0, 1500), {disc, mk(K_PROBE, {1, 0, 1, 0}), mk(K_PROBE, {2, 1, 0, 0}), mk(K_OTHERIF, {5, 0, 7, 0}), mk(K_OTHERIF, {2, 0, 1, 0}), mk(K_OTHERIF, {3, 0, 3, 0}), mk(K_QUERY, {-1, 6}),
                         mk(K_PROBE, {3, 2, 1, 0}), mk(K_OTHERIF, {0, 0, 1, 0}), mk(K_QUERY, {-1, 7}), disc});
    Op disc1 = mk(K_DISCOVER, {1, 0, 2, 3, 0, 0, -1});
    add(base(0, 1500), {disc, disc, disc1, mk(K_QUERY, {-1, 4}), disc, disc1});                       // a second station knocks while the first is the mapper
    add(base(1, 600), {disc, mk(K_QLT, {-1, 7, 0x0E, 0, 0}), mk(K_QLT, {-1, 8, 0x0E, 566, 0})});    // multi-frame icon at a non-1500 MTU
    { HCfg hj = base(0, 9000); hj.icon = Bytes(20000, 0x43); add(hj, {disc, mk(K_QLT, {-1, 7, 0x0E, 0, 0}), mk(K_QLT, {-1, 8, 0x0E, 8966, 0})}); }   // jumbo MTU
    return out;
}

int main(int argc, char **argv) {
    Args a = parse_args(argc, argv);
    if (!a.replay.empty()) return replay_case(a, run);
    zygote_start(run);   // before any code under test runs in this process
    Current::install(a.failing);
    Evidence ev;
    ev.level_hint = "fault_enumeration";
    ev.rule = "scenario corpus (one per request type + compound ones; thorough adds rapidcheck-generated scenarios) x every fault point: fail exactly the k-th allocation for every k up to the scenario's allocation count, "
              "fail every allocation from the k-th on, refuse the k-th transmit for every k and refuse all, the k-th allocation failing while every transmit is refused, every single failing getter (leaving its output untouched, or scribbling over it first; the MTU getter also 'succeeding' with 0), all pairs and random subsets, the k-th call of each per-interface getter failing once; constructors with the 1st/2nd/... allocation failing, alone and next to a complete set of objects that is already in use. "
              "Oracle: no sanitizer/ledger report, frames sent under the fault well-formed and not more than fault-free, after the fault clears + Reset exactly one block per interface and a fixed continuation byte-identical to a fresh instance. "
              "non-trivial = the injected fault was actually hit and the fault-free run transmits >= 1 frame; distinct = (scenario, fault)";
    bool ok = true;
    long idx = 0;
    auto try_case = [&](Case c, const char *part) {
        if (!ok || idx++ % a.nshards != a.shard) return;
        CurrentScope scope(c);
        Verdict v = run(c);
        ev.note(c.digest(), v.nontrivial && v.ok, [&] { return c.to_text().substr(0, 500); });
        for (auto &x : v.classes) ev.count(std::string(part) + ":" + x);
        if (!v.ok) { write_file(a.failing, std::string("# ") + part + ": " + v.why + "\n" + c.to_text()); fprintf(stderr, "FAIL part=%s %s\n", part, v.why.c_str()); ok = false; }
    };
    // constructors
    for (int which = 1; which <= 5; which++) for (int k = 1; k <= (which == 5 ? 7 : 3); k++) for (int earlier = 0; earlier < 2; earlier++) { Case c; c.cfg.assign(11, 0); c.cfg[7] = earlier; c.cfg[9] = k; c.cfg[10] = which; try_case(c, "c18-constructors"); }
    // scenario corpus x every fault point
    static const uint32_t getters[] = {VF_MTU, VF_MAC, VF_IFTYPE, VF_IPV4, VF_IPV6, VF_SPEED, VF_BSSID, VF_SSID, VF_RATE, VF_RSSI, VG_ICON, VG_FRIENDLY, VG_HOSTNAME, VG_HWID};
    const int NG = sizeof getters / sizeof getters[0];
    for (auto &sc : corpus()) {
        if (!ok) break;
        HCfg h = HCfg::from_case(sc);
        Outcome fr = exec(sc, h, Fault(), false);
        for (uint64_t k = 1; k <= fr.allocs + 1; k++) { Case c = sc; c.cfg[8] = 1; c.cfg[9] = (int64_t)k; try_case(c, "c18-alloc-kth"); c.cfg[8] = 2; try_case(c, "c18-alloc-from-kth"); }
        for (uint64_t k = 1; k <= fr.sends + 1; k++) { Case c = sc; c.cfg[8] = 3; c.cfg[9] = (int64_t)k; try_case(c, "c18-send-kth"); }
        { Case c = sc; c.cfg[8] = 4; try_case(c, "c18-send-always"); }
        for (uint64_t k = 1; k <= fr.allocs + 1; k++) { Case c = sc; c.cfg[8] = 7; c.cfg[9] = (int64_t)k; try_case(c, "c18-alloc-kth-while-no-transmit-succeeds"); }
        for (int i = 0; i < NG; i++) { Case c = sc; c.cfg[8] = 5; c.cfg[9] = getters[i]; try_case(c, "c18-getter-single"); }
        for (int i = 0; i < 6; i++) { Case c = sc; c.cfg[8] = 8; c.cfg[9] = getters[i]; try_case(c, "c18-getter-fails-after-writing-its-output"); }
        { Case c = sc; c.cfg[8] = 9; try_case(c, "c18-mtu-getter-reports-0"); }
        for (int bit = 0; bit < 11; bit++)   // the k-th call of one per-interface getter fails once (a getter that fails on one of two lookups of the same request)
            for (uint32_t k = 1; k <= std::min<uint32_t>(fr.getter_calls_per_bit[bit], 8); k++) { Case c = sc; c.cfg[8] = 6; c.cfg[9] = bit * 256 + (int64_t)k; try_case(c, "c18-getter-kth-call"); }
        for (int i = 0; i < NG; i++) for (int j = i + 1; j < NG; j++) { Case c = sc; c.cfg[8] = 5; c.cfg[9] = getters[i] | getters[j]; try_case(c, "c18-getter-pair"); }
    }
    ev.extra["fault_points_enumerated_for_corpus"] = "true";
    // generated scenarios x generated fault (incl. random getter subsets)
    if (ok) {
        HistWeights w;
        w.commands_from_active_only = false; w.probe = 5; w.qlt = 5;
        auto gen = rc::gen::exec([=] {
            HCfg h = *hg::cfg_gen();
            Case c; h.to_case(c);
            c.ops = *hg::ops_gen(w, 1, 25);
            c.cfg.resize(11, 0);
            int kind = *gx::range<int>(1, 9);
            c.cfg[8] = kind;
            if (kind == 5 || kind == 8) { int64_t m = 0; int n = *gx::range<int>(1, 6); for (int i = 0; i < n; i++) m |= getters[*gx::range<int>(0, NG - 1)]; c.cfg[9] = m; }
            else if (kind == 6) c.cfg[9] = *gx::pick({0, 1, 0, 0, 2, 3, 4, 5}) * 256 + *gx::range<int64_t>(1, 6);
            else c.cfg[9] = *gx::bnd({1, 2, 3}, 1, 40, 1, 2);
            return c;
        });
        ok = run_cases(a, ev, "c18-generated", a.n(80000, 400000), 100, gen, run);
    }
    ev.write(a.out);
    return ok ? 0 : 1;
}
