// C03 — An accepted Discover is answered by exactly one correct Hello.
#include "hist.hpp"

static Verdict run(const Case &c) {
    Verdict v;
    HCfg h = HCfg::from_case(c);
    World w;
    h.apply_global(w);
    int ifi = w.add_if(h.ifcfg());
    Mac own = h.ownmac();
    Shadow sh;
    OtherIf oif;
    MapperModel mm;
    bool contaminated = false;   // foreign Hello / other-service Discover / generation change seen before
    int last_gen[2] = {-1, -1};
    int checked = 0, nontriv_checked = 0, undetermined = 0, bridged = 0, gen0 = 0;
    const std::vector<Op> ops = expand_repeats(c.ops);
    for (size_t i = 0; i < ops.size() && v.ok; i++) {
        const Op &op = ops[i];
        if (op.kind == K_ADVANCE) { vp_set_now_ms(vp_now_ms() + (uint64_t)op.arg(0)); continue; }
        if (op.kind == K_SETICON) { w.set_icon(op.blob); continue; }
        if (op.kind == K_OTHERIF) { oif.step(w, h, op); continue; }
        if (op.kind == 16 /* platform changes the interface's hardware address */) { own = mac_from_u64(0x020000000000ULL | (uint64_t)(op.arg(0) & 0xFFFFFF) | 0x01000000ULL); memcpy(w.ctx(ifi)->mac, own.b, 6); h.own = mac_to_u64(own); continue; }
        Built b = build_frame(h, op, sh);
        if (!b.is_frame) continue;
        std::vector<Ev> evs = w.deliver(ifi, b.frame);
        if (op.kind == K_DISCOVER && (op.arg(1) == 0 || op.arg(1) == 1)) {
            int tos = (int)op.arg(1);
            std::vector<Ev> tx = sends_only(evs);
            int exp = mm.expect_discover(b.station);
            bool answered = !tx.empty();
            if (exp == 2) undetermined++;
            if (exp == 1) {
                checked++;
                if (contaminated) nontriv_checked++;
                if (b.bridged) bridged++;
                if (op.arg(2) == 0) gen0++;
                if (tx.size() != 1) { v.fail(fmt("step %zu: accepted Discover answered by %zu frames, expected exactly 1", i, tx.size())); break; }
                Hdr hd; Hello he;
                const Bytes &f = tx[0].data;
                if (!dec_hdr(f, hd)) { v.fail(fmt("step %zu: reply shorter than a header", i)); break; }
                std::string e = dec_hello(f, he);
                if (hd.op != OP_HELLO) v.fail(fmt("step %zu: reply opcode %u is not Hello", i, hd.op));
                else if (!e.empty()) v.fail(fmt("step %zu: Hello malformed: %s", i, e.c_str()));
                else if (hd.edst != BCAST || hd.rdst != BCAST) v.fail(fmt("step %zu: Hello not broadcast at both levels (%s/%s)", i, hd.edst.str().c_str(), hd.rdst.str().c_str()));
                else if (hd.esrc != own || hd.rsrc != own) v.fail(fmt("step %zu: Hello not sourced from own address", i));
                else if (hd.tos != tos) v.fail(fmt("step %zu: Hello ToS %u != Discover ToS %d", i, hd.tos, tos));
                else if (hd.seq != 0) v.fail(fmt("step %zu: Hello sequence number %u != 0", i, hd.seq));
                else if (hd.ethertype != 0x88D9 || hd.ver != 1) v.fail(fmt("step %zu: Hello ethertype/version wrong", i));
                else if (he.cur != (b.bridged ? h.st_real(b.station) : h.st_real(b.station))) v.fail(fmt("step %zu: current mapper %s != Discover real source", i, he.cur.str().c_str()));
                else if (he.app != (b.bridged ? h.st_bridge(b.station) : h.st_real(b.station))) v.fail(fmt("step %zu: apparent mapper %s != Discover Ethernet source", i, he.app.str().c_str()));
                else if (he.gen != (uint16_t)op.arg(2)) v.fail(fmt("step %zu: Hello generation 0x%04x != Discover generation 0x%04x", i, he.gen, (unsigned)(uint16_t)op.arg(2)));
            } else if (exp == 0 && answered) {
                v.fail(fmt("step %zu: Discover from a station other than the active mapper was answered", i));
            }
            mm.observe_discover(b.station, answered);
            if (last_gen[tos] >= 0 && last_gen[tos] != op.arg(2)) contaminated = true;
            if (last_gen[1 - tos] >= 0) contaminated = true;
            last_gen[tos] = (int)op.arg(2);
        } else {
            mm.apply(op, b);
            if (op.kind == K_HELLO) contaminated = true;
        }
        shadow_update(sh, op, b);
    }
    v.nontrivial = nontriv_checked > 0;
    if (checked) v.cls("has-checked-discover");
    if (bridged) v.cls("bridged");
    if (gen0) v.cls("generation-0");
    if (undetermined) v.cls("undetermined-by-model");
    if (nontriv_checked) v.cls("contaminated-state");
    return v;
}

int main(int argc, char **argv) {
    Args a = parse_args(argc, argv);
    if (!a.replay.empty()) return replay_case(a, run);
    zygote_start(run);   // before any code under test runs in this process
    Current::install(a.failing);
    Evidence ev;
    ev.rule = "histories of Discover(ToS 0/1/other, generation from boundary dictionary, bridged or direct)/Hello/Reset/Emit/Probe/Query/"
              "QueryLargeTlv/noise over 3 stations; every Discover the C05 model says must be accepted is checked field by field. "
              "non-trivial = a checked Discover preceded by a foreign Hello, a Discover of the other service or a generation change; "
              "distinct = digest of the whole case";
    HistWeights w;
    w.discover = 10; w.hello = 4; w.reset = 3; w.otherif = 1; w.repeat = 1;
    auto gen = rc::gen::exec([=] {
        Case c = *hg::hist_case(w, 1, 40);
        if (*gx::chance(15) && !c.ops.empty()) {   // the platform changes the interface's address somewhere in the history
            Op m; m.kind = 16; m.a = {*gx::range<int64_t>(1, 0xFFFFFF)};
            c.ops.insert(c.ops.begin() + *gx::range<int>(0, (int)c.ops.size() - 1), m);
        }
        return c;
    });
    bool ok = run_cases(a, ev, "c03-histories", a.n(120000, 1000000), 100, gen, run);
    ev.write(a.out);
    return ok ? 0 : 1;
}
