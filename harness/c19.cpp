// C19 — Memory use is bounded and nothing is leaked (allocation-ledger oracle after every frame).
#include "hist.hpp"
#include "tgen.hpp"

enum { K_FAILSEND = 60 };
static const size_t ABS_LIMIT = 1u << 20;   // 1 MiB + icon size per interface: far above any sensible cap, far below a flood

// part 0: histories (cfg[8] = how many times the op list is repeated); part 1: flood (cfg[8] = n, cfg[9] = mix)
static Verdict run_hist(const Case &c) {
    Verdict v;
    HCfg h = HCfg::from_case(c);
    World w;
    vp_log_enable(1);
    h.apply_global(w);
    int ifi = w.add_if(h.ifcfg());
    Mac own = h.ownmac();
    // the very first frame creates the per-interface record; a topology Reset retains nothing else
    (void)w.deliver(ifi, mk_simple(BCAST, h.st_real(0), 0, OP_RESET, BCAST, h.st_real(0), 0));
    size_t base_blocks = vp_live_blocks(), base_bytes = vp_live_bytes();
    if (base_blocks != 1) { v.fail(fmt("after the first frame %zu blocks are live, expected exactly the per-interface record", base_blocks)); return v; }
    Shadow sh;
    std::set<std::pair<uint64_t, uint64_t>> obs;   // upper bound of what may be retained as observations
    bool icon_may_be_cached = false;
    size_t max_icon = h.icon.size();
    int64_t reps = std::max<int64_t>(1, std::min<int64_t>(c.c(8, 1), 2000));
    uint64_t frames = 0;
    std::set<int> kinds;
    int resets = 0;
    for (int64_t r = 0; r < reps && v.ok; r++)
        for (size_t i = 0; i < c.ops.size() && v.ok; i++) {
            const Op &op = c.ops[i];
            if (op.kind == K_ADVANCE) { vp_set_now_ms(vp_now_ms() + (uint64_t)op.arg(0)); continue; }
            if (op.kind == K_SETICON) { w.set_icon(op.blob); max_icon = std::max(max_icon, op.blob.size()); continue; }
            if (op.kind == K_FAILSEND) { vp_fail_send_at(1 + (op.arg(0) & 3)); continue; }
            Built b = build_frame(h, op, sh);
            if (!b.is_frame) continue;
            if (b.frame.size() > h.mtu) b.frame.resize(h.mtu);
            std::vector<Ev> evs = w.deliver(ifi, b.frame);
            frames++;
            kinds.insert(op.kind);
            Bytes z = b.frame; z.resize(h.mtu, 0);
            Hdr hd; dec_hdr(z, hd);
            if (hd.tos == 0 && (hd.op == OP_PROBE || hd.op == OP_TRAIN) && hd.rdst == own) obs.insert({mac_to_u64(hd.esrc), mac_to_u64(hd.rsrc)});
            if (hd.tos <= 1 && hd.op == OP_QLT && z[32] == 0x0E && hd.seq != 0) icon_may_be_cached = true;
            bool topo_reset = hd.tos == 0 && hd.op == OP_RESET;
            if (topo_reset) { obs.clear(); icon_may_be_cached = false; resets++; }
            shadow_update_sem(sh, frame_sem(z), b);
            // ---- ledger oracle
            if (vp_ledger_violations()) { v.fail(vp_ledger_last_violation()); break; }
            size_t blocks = vp_live_blocks(), bytes = vp_live_bytes();
            if (topo_reset) {
                if (blocks != base_blocks || bytes != base_bytes)
                    v.fail(fmt("frame %llu (rep %lld step %zu): after a topology Reset %zu blocks / %zu bytes are live, a fresh interface has %zu / %zu", (unsigned long long)frames, (long long)r, i, blocks, bytes, base_blocks, base_bytes));
            } else {
                // The statement allows "bounded retained state" without prescribing it, so a small constant number of extra blocks (a kept
                // transmit buffer, a cache) is tolerated here; what must not happen is growth with the history - a per-request leak exceeds the
                // slack after a few requests - and after a topology Reset the count must be exactly the per-interface record (checked above).
                const size_t SLACK_BLOCKS = 3;
                size_t bound_blocks = base_blocks + obs.size() + (icon_may_be_cached ? 1 : 0) + SLACK_BLOCKS;
                size_t bound_bytes = base_bytes + obs.size() * 64 + (icon_may_be_cached ? max_icon + 16 : 0) + SLACK_BLOCKS * (h.mtu + 64);
                if (blocks > bound_blocks)
                    v.fail(fmt("frame %llu (rep %lld step %zu, opcode %u): %zu blocks live after the handler returned; retained state allows at most %zu (record + %zu observations + %d icon + 3 blocks of slack)", (unsigned long long)frames, (long long)r, i, hd.op, blocks, bound_blocks, obs.size(), icon_may_be_cached ? 1 : 0));
                else if (bytes > bound_bytes)
                    v.fail(fmt("frame %llu (rep %lld step %zu, opcode %u): %zu bytes live, bound %zu", (unsigned long long)frames, (long long)r, i, hd.op, bytes, bound_bytes));
            }
        }
    if (v.ok) {   // final: Reset returns to the baseline
        (void)w.deliver(ifi, mk_simple(BCAST, h.st_real(0), 0, OP_RESET, BCAST, h.st_real(0), 0));
        if (vp_live_blocks() != base_blocks || vp_live_bytes() != base_bytes) v.fail(fmt("after the final Reset %zu blocks / %zu bytes are live, baseline %zu / %zu", vp_live_blocks(), vp_live_bytes(), base_blocks, base_bytes));
    }
    bool all_types = kinds.count(K_DISCOVER) && kinds.count(K_EMIT) && kinds.count(K_QUERY) && kinds.count(K_QLT) && kinds.count(K_PROBE);
    v.nontrivial = frames >= 100 && all_types;
    if (all_types) v.cls("every-request-type");
    if (resets) v.cls("has-reset");
    v.cls(frames >= 10000 ? "frames>=10000" : frames >= 1000 ? "frames>=1000" : frames >= 100 ? "frames>=100" : "frames<100");
    return v;
}

static Verdict run_flood(const Case &c) {
    Verdict v;
    HCfg h = HCfg::from_case(c);
    World w;
    vp_log_enable(0);
    h.apply_global(w);
    int ifi = w.add_if(h.ifcfg());
    Mac own = h.ownmac(), m = h.st_real(0);
    (void)w.deliver(ifi, mk_simple(BCAST, m, 0, OP_RESET, BCAST, m, 0));
    size_t base_bytes = vp_live_bytes();
    (void)w.deliver(ifi, mk_discover(m, m, 0, 1, 1, {}));
    uint64_t n = (uint64_t)std::max<int64_t>(1, std::min<int64_t>(c.c(8, 4096), 200000));
    int mix = (int)c.c(9);
    size_t limit = ABS_LIMIT + h.icon.size() + base_bytes;
    size_t at16k = 0, at4k = 0;
    uint8_t *buf = (uint8_t *)calloc(1, h.mtu);
    for (uint64_t i = 0; i < n && v.ok; i++) {
        // pairwise distinct (Ethernet source, real source): an attacker inventing addresses
        Mac e = mac_from_u64(0x060000000000ULL + i), r = mac_from_u64(0x0A0000000000ULL + (i * 2654435761ULL & 0xFFFFFFFFFFULL));
        if (mix & 8) r = m;                                  // every frame claims the active mapper as its real source (distinct Ethernet sources)
        if (mix & 16) e = mac_from_u64(0x060000000001ULL);   // one Ethernet source, distinct real sources
        Bytes f = mk_simple(own, e, 0, (mix & 1) && (i & 1) ? OP_TRAIN : OP_PROBE, own, r, 0);
        memcpy(buf, f.data(), f.size());
        br_parse_frame(buf, w.ctx(ifi));
        if ((mix & 4) && i % 1500 == 1499) {   // the mapper queries once in a while: each Query drains one frame's worth, the flood refills
            Bytes q = mk_simple(own, m, 0, OP_QUERY, own, m, (uint16_t)(1 + i % 60000));
            memset(buf, 0, h.mtu); memcpy(buf, q.data(), q.size());
            br_parse_frame(buf, w.ctx(ifi));
            memset(buf, 0, h.mtu);
        }
        if ((mix & 2) && i % 997 == 0) {   // interleaved requests other than Query
            Bytes q = i % 2 ? mk_qlt(own, m, own, m, 3, 0x11, 0) : mk_emit(own, m, own, m, 4, {{1, 0, m, own}});
            memset(buf, 0, h.mtu); memcpy(buf, q.data(), q.size());
            br_parse_frame(buf, w.ctx(ifi));
            memset(buf, 0, h.mtu);
        }
        size_t bytes = vp_live_bytes();
        if (bytes > limit) { v.fail(fmt("after %llu pairwise-distinct probes without a Query the responder retains %zu bytes (> %zu): retained memory grows with the history", (unsigned long long)(i + 1), bytes, limit)); break; }
        if (i + 1 == 4096) at4k = bytes;
        if (i + 1 == 16384) at16k = bytes;
    }
    free(buf);
    if (v.ok && n >= 65536 && vp_live_bytes() > at16k + 64 * 80) v.fail(fmt("retained memory still grows between 16384 probes (%zu bytes) and %llu probes (%zu bytes)", at16k, (unsigned long long)n, vp_live_bytes()));
    if (v.ok) {
        (void)at4k;
        (void)w.deliver(ifi, mk_simple(BCAST, m, 0, OP_RESET, BCAST, m, 0));
        if (vp_live_bytes() != base_bytes || vp_live_blocks() != 1) v.fail(fmt("after the flood and a Reset %zu blocks / %zu bytes are live, baseline 1 / %zu", vp_live_blocks(), vp_live_bytes(), base_bytes));
    }
    v.nontrivial = n >= 4096;
    v.cls(fmt("flood-%s", n >= 65536 ? ">=65536" : n >= 16384 ? ">=16384" : n >= 4096 ? ">=4096" : "<4096"));
    return v;
}
// part 2: several interfaces of one host alive at the same time (cfg[8] = how many, 2..8), each with a mapper, observations and a cached icon; frames rotate between them.
// Retained memory is per interface: one record each, its observations and its icon; after a Reset on every interface exactly one record per interface remains.
static Verdict run_many_ifs(const Case &c) {
    Verdict v;
    HCfg h = HCfg::from_case(c);
    World w;
    h.apply_global(w);
    int n = (int)std::max<int64_t>(2, std::min<int64_t>(c.c(8, 5), 12));
    std::vector<int> ifi; std::vector<Mac> own;
    for (int k = 0; k < n; k++) { IfCfg ic = h.ifcfg(); ic.mac = mac_from_u64(h.own + ((uint64_t)k << 16)); own.push_back(ic.mac); ifi.push_back(w.add_if(ic)); }
    Mac m = h.st_real(0);
    for (int k = 0; k < n; k++) (void)w.deliver(ifi[(size_t)k], mk_simple(BCAST, m, 0, OP_RESET, BCAST, m, 0));
    size_t base_blocks = vp_live_blocks(), base_bytes = vp_live_bytes();
    if (base_blocks != (size_t)n) { v.fail(fmt("%d interfaces have seen one frame each: %zu blocks live, expected one record per interface", n, base_blocks)); return v; }
    int rounds = (int)std::max<int64_t>(1, std::min<int64_t>(c.c(9, 3), 6));
    for (int r = 0; r < rounds && v.ok; r++) {
        for (int k = 0; k < n && v.ok; k++) {
            int x = (k * 3 + r) % n;   // rotate, not in creation order
            (void)w.deliver(ifi[(size_t)x], mk_discover(m, m, 0, 1, 1, {}));
            for (int p = 0; p < 3; p++) (void)w.deliver(ifi[(size_t)x], mk_simple(own[(size_t)x], mac_from_u64(0x0600CC000000ULL + (uint64_t)(r * 10 + p)), 0, OP_PROBE, own[(size_t)x], mac_from_u64(0x0600DD000000ULL + (uint64_t)p), 0));
            (void)w.deliver(ifi[(size_t)x], mk_qlt(own[(size_t)x], m, own[(size_t)x], m, (uint16_t)(r + 1), 0x0E, 0, 0));
            size_t bound = (size_t)n * (1 + 3 * (size_t)(r + 1) + 1) + 3;
            if (vp_live_blocks() > bound) v.fail(fmt("round %d, interface %d of %d: %zu blocks live; per interface one record, its observations and its icon allow %zu", r, x, n, vp_live_blocks(), bound));
        }
    }
    for (int k = 0; k < n && v.ok; k++) (void)w.deliver(ifi[(size_t)k], mk_simple(BCAST, m, 0, OP_RESET, BCAST, m, 0));
    if (v.ok && (vp_live_blocks() != base_blocks || vp_live_bytes() != base_bytes))
        v.fail(fmt("%d interfaces, after a Reset on every one of them: %zu blocks / %zu bytes live, expected %zu / %zu (one record per interface)", n, vp_live_blocks(), vp_live_bytes(), base_blocks, base_bytes));
    if (v.ok && vp_ledger_violations()) v.fail(vp_ledger_last_violation());
    v.nontrivial = n >= 3;
    v.cls(fmt("interfaces=%d", n));
    return v;
}
static Verdict run(const Case &c) { return c.c(0) == 1 ? run_flood(c) : c.c(0) == 2 ? run_many_ifs(c) : run_hist(c); }

int main(int argc, char **argv) {
    Args a = parse_args(argc, argv);
    if (!a.replay.empty()) return replay_case(a, run);
    zygote_start(run);   // before any code under test runs in this process
    Current::install(a.failing);
    Evidence ev;
    ev.rule = "(1) generated histories with every request type, noise/mutated frames, failing transmits, repeated icon requests, platform icon swaps and Resets at random points, repeated cyclically to 10^3 (quick) / 10^5 (thorough) frames; "
              "after EVERY frame the port's ledger must show <= record + observations-possibly-retained + icon-cache blocks, and after every topology Reset exactly the per-interface record (same byte count as after the first frame). "
              "(3) two to eleven interfaces of one host alive at once, frames rotating between them: one record, its observations and its icon per interface, one record per interface after a Reset on each. (2) floods of n pairwise-distinct Probes/Trains addressed to this station without a Query (and variants where the mapper queries every 1500 probes, i.e. partial drains while the flood refills, where every frame claims the active mapper as its real source, and where one Ethernet source carries all the distinct real sources) (n = 4096, 16384, 65536; thorough 100000, with interleaved Emit/QueryLargeTlv): retained bytes <= 1 MiB + icon and not growing after 16384. "
              "non-trivial = history with >= 100 frames containing every request type, or a flood with n >= 4096; distinct = digest of the case";
    bool ok = true;
    // floods (deterministic family)
    std::vector<std::pair<int64_t, int64_t>> floods = a.quick() ? std::vector<std::pair<int64_t, int64_t>>{{4096, 0}, {16384, 1}, {65536, 0}, {65536, 4}, {16384, 6}, {65536, 8}, {65536, 16}, {65536, 9}}
                                                                 : std::vector<std::pair<int64_t, int64_t>>{{4096, 0}, {4096, 3}, {16384, 1}, {16384, 2}, {65536, 0}, {65536, 3}, {100000, 1}, {100000, 2}, {65536, 4}, {100000, 5}, {100000, 6}, {100000, 7}, {100000, 8}, {100000, 16}, {100000, 9}, {100000, 12}};
    for (size_t k = a.shard; k < floods.size() && ok; k += a.nshards) {
        HCfg h; h.part = 1; h.mtu = k % 2 ? 576 : 1500; h.icon = Bytes(300, 7);
        Case c; h.to_case(c);
        c.cfg.push_back(floods[k].first); c.cfg.push_back(floods[k].second);
        CurrentScope scope(c);
        Verdict v = run(c);
        ev.note(c.digest(), v.nontrivial && v.ok, [&] { return c.to_text().substr(0, 400); });
        for (auto &x : v.classes) ev.count("c19-flood:" + x);
        if (!v.ok) { write_file(a.failing, "# c19-flood: " + v.why + "\n" + c.to_text()); fprintf(stderr, "FAIL part=c19-flood %s\n", v.why.c_str()); ok = false; }
    }
    // several interfaces at once (deterministic family)
    for (int n = 2; n <= 11 && ok; n++) for (int rounds : {1, 3}) {
        if (!ok || (size_t)(n * 2 + rounds) % a.nshards != (size_t)a.shard) continue;
        HCfg h; h.part = 2; h.mtu = n % 2 ? 576 : 1500; h.icon = Bytes(900, 9);
        Case c; h.to_case(c);
        c.cfg.push_back(n); c.cfg.push_back(rounds);
        CurrentScope scope(c);
        Verdict v = run(c);
        ev.note(c.digest(), v.nontrivial && v.ok, [&] { return c.to_text().substr(0, 300); });
        for (auto &x : v.classes) ev.count("c19-many-interfaces:" + x);
        if (!v.ok) { write_file(a.failing, "# c19-many-interfaces: " + v.why + "\n" + c.to_text()); fprintf(stderr, "FAIL part=c19-many-interfaces %s\n", v.why.c_str()); ok = false; }
    }
    if (ok) {
        HistWeights w;
        w.commands_from_active_only = false; w.probe = 6; w.qlt = 4; w.seticon = 1; w.raw = 1; w.probe_ids = 8; w.max_emit = 5;
        bool quick = a.quick();
        auto gen = rc::gen::exec([=] {
            HCfg h = *hg::cfg_gen();
            if (*gx::chance(8)) { h.icon = Bytes((size_t)*gx::pick({32768, 32769, 40000, 65535, 65536, 70000}), 0x49); h.icon_state = 1; }   // a platform icon larger than anything a mapper can fetch: still one buffer, still released
            Case c; h.to_case(c);
            Mac own = h.ownmac(); size_t mtu = h.mtu;
            int n = *gx::range<int>(5, 100);
            c.ops = *rc::gen::resize(n, rc::gen::container<std::vector<Op>>(gx::weighted<Op>({
                {12, hg::op_gen(w)},
                {1, rc::gen::exec([=] { Op o; o.kind = K_RAW; o.blob = c01_frame(mtu, own, *frame_t_gen()); return o; })},
                {1, rc::gen::exec([] { Op o; o.kind = K_FAILSEND; o.a = {*gx::range<int64_t>(0, 3)}; return o; })}})));
            c.cfg.push_back(quick ? *gx::pick({1, 3, 10, 30}) : *gx::pick({1, 10, 100, 1000}));
            return c;
        });
        ok = run_cases(a, ev, "c19-histories", a.n(4000, 8000), 100, gen, run);
    }
    ev.write(a.out);
    return ok ? 0 : 1;
}
