// C17 — Interfaces are isolated from each other, also when served concurrently.
//   asan flavour: sequential interleavings (solo trace == interleaved trace)
//   tsan flavour: two threads released by a barrier, ThreadSanitizer reports classified by their innermost core frame
#include "hist.hpp"
#include "tgen.hpp"

// ops carry the interface in their kind: kind + 100 * iface. cfg = HCfg of interface 0 (8 ints) + [8] mtu1 [9] wifi1 [10] own1 [11] same_config [12] phase (tsan: 0 = A both new, 1 = B warmed up)
static HCfg cfg_of(const Case &c, int i) {
    HCfg h = HCfg::from_case(c);
    if (i == 1 && !c.c(11)) { h.mtu = (size_t)std::max<int64_t>(576, std::min<int64_t>(c.c(8, 1500), 9216)); h.wifi = (int)c.c(9); h.own = (uint64_t)c.c(10, 0x020000000002LL); }
    if (i == 1 && c.c(11) == 1) h.own ^= 0x01;    // same everything (also the same station table) except the own address' last bit
    // c.c(11) == 2: same everything INCLUDING the hardware address (bond slaves, VLAN sub-interfaces): only the context pointer tells them apart
    if (i == 2) { h = cfg_of(c, 1); h.own ^= 0x020000; h.mtu = 1280; }   // a third interface (present when the case has steps for it)
    return h;
}
static std::vector<Op> ops_of(const Case &c, int i) {
    std::vector<Op> r;
    for (auto o : c.ops) if (o.kind / 100 == i) { o.kind %= 100; r.push_back(o); }
    return r;
}

// deliver one op of interface ifi (World index) and return its events with the interface id normalised
static std::vector<Ev> step(World &w, int ifi, const HCfg &h, const Op &op, Shadow &sh) {
    if (op.kind == K_ADVANCE) return {};
    Built b = build_frame(h, op, sh);
    if (!b.is_frame) return {};
    if (b.frame.size() > h.mtu) b.frame.resize(h.mtu);
    std::vector<Ev> e = w.deliver(ifi, b.frame);
    for (auto &x : e) if (x.ifid == ifi) x.ifid = 0; else if (x.ifid >= 0) x.ifid = 100 + x.ifid;   // a send on the OTHER interface stays visible
    shadow_update_sem(sh, frame_sem(b.frame), b);
    return e;
}
static std::vector<std::vector<Ev>> solo(const Case &c, int i) {
    HCfg h = cfg_of(c, i);
    World w;
    HCfg::from_case(c).apply_global(w);
    int ifi = w.add_if(h.ifcfg());
    Shadow sh;
    std::vector<std::vector<Ev>> out;
    for (auto &op : ops_of(c, i)) out.push_back(step(w, ifi, h, op, sh));
    return out;
}

#ifndef FLAVOUR_TSAN
// ---- the automata layer: one set of engines (mapping, session, enumeration, session table, tick) per interface, as the daemons keep them.
// cfg = {7, engines 2..3}; ops: 1 frame (a: what, engine, mapper, acknowledging) 2 advance (a: ms) 3 tick (a: engine, -1 = every engine in turn)
// The per-engine trace (states, table, RepeatBand numbers, periodic Hellos with their times after every frame and tick of that engine) must be
// the same whether the other engines exist and are busy or not; the clock is common to both runs.
static void count_hello17(void *u) { ++*(int *)u; }
static std::vector<uint64_t> engines_trace(const Case &c, int only) {
    std::vector<uint64_t> tr;
    World w;
    int k = (int)std::max<int64_t>(2, std::min<int64_t>(c.c(1, 2), 3));
    uint64_t now = 5000;
    vp_set_now_ms(now);
    struct E { br_darwin d{}; IfCfg ic; int ifi = -1; int hellos = 0; bool on = false; };
    std::vector<E> en((size_t)k);
    for (int x = 0; x < k; x++) {
        E &e = en[(size_t)x];
        e.on = only < 0 || only == x;
        if (!e.on) continue;
        e.ic.mac = mac_from_u64(0x020000000011ULL + (uint64_t)x);
        e.ifi = w.add_if(e.ic);
        memcpy(e.d.mac, e.ic.mac.b, 6);
        e.d.ctx = w.ctx(e.ifi); e.d.send_hello = count_hello17; e.d.user = &e.hellos; e.d.call_parse_frame = 1; e.d.skip_trailing_tick = 0;
        if (br_darwin_init(&e.d) != 0) { tr.push_back(0xDEAD); return tr; }
    }
    auto snap = [&](E &e) {
        br_band b; br_band_get(br_aut_extra(e.d.enumeration), &b);
        br_mapst ms; br_mapst_get(br_aut_extra(e.d.mapping), &ms);
        uint64_t vals[] = {(uint64_t)br_aut_state(e.d.mapping), (uint64_t)br_aut_state(e.d.session), (uint64_t)br_aut_state(e.d.enumeration), (uint64_t)br_st_count(e.d.table),
                           (uint64_t)br_st_is_empty(e.d.table), (uint64_t)br_st_all_complete(e.d.table), b.Ni, b.r, (uint64_t)b.begun, b.hello_ts, b.block_ts, ms.ctc, (uint64_t)e.hellos, e.d.last_hello_tx_ms};
        tr.push_back(fnv(vals, sizeof vals));
    };
    for (auto &op : c.ops) {
        if (op.kind == 2) { now += (uint64_t)std::max<int64_t>(0, std::min<int64_t>(op.arg(0), 100000)); vp_set_now_ms(now); continue; }
        if (op.kind == 3) {
            for (int x = 0; x < k; x++) if ((op.arg(0) < 0 || op.arg(0) % k == x) && en[(size_t)x].on) { br_darwin_idle_tick(&en[(size_t)x].d); (void)drain_log(); if (only < 0 ? true : true) snap(en[(size_t)x]); }
            continue;
        }
        if (op.kind != 1) continue;
        int x = (int)(((op.arg(1) % k) + k) % k);
        E &e = en[(size_t)x];
        if (!e.on) continue;
        Mac mp = mac_from_u64(0x0200AA000001ULL + ((uint64_t)(op.arg(2) & 3) << 8));
        Bytes f;
        switch ((int)op.arg(0)) {
            case 0: { std::vector<Mac> st = {mac_from_u64(0x0600BB000001ULL)}; if (op.arg(3)) st.push_back(e.ic.mac); f = mk_discover(mp, mp, 0, (uint16_t)(1 + (op.arg(3) & 1)), 5, st); break; }
            case 1: f = mk_hello(mac_from_u64(0x0200CC000001ULL), 0, 5, mp, mp); break;
            case 2: f = mk_simple(BCAST, mp, 0, OP_RESET, BCAST, mp, 0); break;
            case 3: f = mk_simple(e.ic.mac, mp, 0, OP_CHARGE, e.ic.mac, mp, 0); break;
            case 4: f = mk_simple(e.ic.mac, mp, 0, OP_QUERY, e.ic.mac, mp, 3); break;
            default: { std::vector<EmitDesc> d = {{1, 0, e.ic.mac, mac_from_u64(0x0400F0000001ULL)}}; f = mk_emit(e.ic.mac, mp, e.ic.mac, mp, 4, d); break; }
        }
        uint8_t *tf;
        uint8_t *b = w.stage(e.ifi, f, CLEAN, &tf);
        br_darwin_rx(&e.d, b, f.size());
        free(tf);
        (void)drain_log();
        snap(e);
    }
    for (int x = 0; x < k; x++) if (en[(size_t)x].on) br_darwin_destroy(&en[(size_t)x].d);
    return tr;
}
// which engine each trace element of the all-engines run belongs to
static std::vector<int> engines_owner(const Case &c) {
    std::vector<int> o;
    int k = (int)std::max<int64_t>(2, std::min<int64_t>(c.c(1, 2), 3));
    for (auto &op : c.ops) {
        if (op.kind == 3) { for (int x = 0; x < k; x++) if (op.arg(0) < 0 || op.arg(0) % k == x) o.push_back(x); }
        else if (op.kind == 1) o.push_back((int)(((op.arg(1) % k) + k) % k));
    }
    return o;
}
static Verdict run_engines(const Case &c) {
    Verdict v;
    int k = (int)std::max<int64_t>(2, std::min<int64_t>(c.c(1, 2), 3));
    std::vector<uint64_t> all = engines_trace(c, -1);
    std::vector<int> owner = engines_owner(c);
    if (all.size() != owner.size()) { v.fail("constructors failed without fault injection"); return v; }
    int busy = 0;
    for (int x = 0; x < k && v.ok; x++) {
        std::vector<uint64_t> alone = engines_trace(c, x);
        size_t j = 0, mine = 0;
        for (size_t i = 0; i < all.size() && v.ok; i++) {
            if (owner[i] != x) continue;
            mine++;
            if (j >= alone.size() || alone[j] != all[i]) v.fail(fmt("automata layer: the %zu-th frame/tick of interface %d leaves its engines (states, session table, RepeatBand numbers, periodic Hellos) in another condition next to %d busy interface(s) than alone", j + 1, x, k - 1));
            j++;
        }
        if (mine >= 3) busy++;
    }
    v.nontrivial = busy >= 2;
    v.cls(fmt("engines=%d", k));
    return v;
}

static Verdict run_frames(const Case &c);
static Verdict run(const Case &c) { return c.c(0) == 7 ? run_engines(c) : run_frames(c); }
static Verdict run_frames(const Case &c) {
    Verdict v;
    // In a sampled (forked) evaluation each solo history additionally runs in a process of its own, forked BEFORE this process has
    // executed any code under test: a process-wide cache or a function-local static introduced into the core is then not shared
    // between "alone" and "interleaved".
    std::vector<uint64_t> alone[2];
    bool have_alone = false;
    if (in_isolated_child()) {
        have_alone = true;
        for (int i = 0; i < 2; i++) {
            bool okc = true;
            alone[i] = digests_in_child([&] { std::vector<uint64_t> d; for (auto &e : solo(c, i)) d.push_back(ev_digest(e)); return d; }, &okc);
            if (!okc) { v.fail(fmt("interface %d: the history run alone in a fresh process crashed", i)); return v; }
        }
    }
    bool third = false;
    for (auto &o : c.ops) if (o.kind / 100 == 2) third = true;
    std::vector<std::vector<Ev>> s[3] = {solo(c, 0), solo(c, 1), third ? solo(c, 2) : std::vector<std::vector<Ev>>()};
    HCfg h[3] = {cfg_of(c, 0), cfg_of(c, 1), cfg_of(c, 2)};
    World w;
    HCfg::from_case(c).apply_global(w);
    int ifi[3] = {w.add_if(h[0].ifcfg()), w.add_if(h[1].ifcfg()), third ? w.add_if(h[2].ifcfg()) : -1};
    Shadow sh[3];
    size_t idx[3] = {0, 0, 0}, tx[3] = {0, 0, 0};
    int switches = 0, last = -1;
    for (size_t k = 0; k < c.ops.size() && v.ok; k++) {
        int i = c.ops[k].kind / 100;
        if (i > 2) continue;
        Op op = c.ops[k]; op.kind %= 100;
        std::vector<Ev> e = step(w, ifi[i], h[i], op, sh[i]);
        if (!(e == s[i][idx[i]])) {
            v.fail(fmt("op %zu (interface %d, its step %zu, kind %d): interleaved with the other interface's traffic it produced %zu events, alone %zu (or bytes differ): %s vs %s", k, i, idx[i], op.kind,
                       e.size(), s[i][idx[i]].size(), e.empty() ? "-" : e.back().str().substr(0, 120).c_str(), s[i][idx[i]].empty() ? "-" : s[i][idx[i]].back().str().substr(0, 120).c_str()));
            break;
        }
        tx[i] += sends_only(e).size();
        idx[i]++;
        if (last >= 0 && last != i) switches++;
        last = i;
    }
    if (v.ok && have_alone) {
        for (int i = 0; i < 2 && v.ok; i++)   // the interleaved trace of interface i has just been verified to equal s[i]
            for (size_t k = 0; k < s[i].size() && k < alone[i].size(); k++)
                if (ev_digest(s[i][k]) != alone[i][k]) { v.fail(fmt("interface %d, its step %zu: the trace next to the other interface differs from the trace the same history produces alone in a freshly started process (process-wide state shared between interfaces)", i, k)); break; }
        v.cls("solo-in-fresh-process");
    }
    v.nontrivial = tx[0] >= 2 && tx[1] >= 2 && switches >= 2;
    if (c.c(11)) v.cls(c.c(11) == 2 ? "identical-configurations-and-address" : "identical-configurations");
    if (switches >= 2) v.cls("alternates>=2");
    if (third) v.cls("three-interfaces");
    return v;
}
#else
// ------------------------------------------------------------------ threads under ThreadSanitizer
#include <pthread.h>
#include <atomic>
extern "C" {
int __tsan_get_report_data(void *report, const char **description, int *count, int *stack_count, int *mop_count, int *loc_count, int *mutex_count, int *thread_count, int *unique_tid_count, void **sleep_trace, unsigned long trace_size);
int __tsan_get_report_mop(void *report, unsigned long idx, int *tid, void **addr, int *size, int *write, int *atomic, void **trace, unsigned long trace_size);
void __sanitizer_symbolize_pc(void *pc, const char *fmt, char *out_buf, unsigned long out_buf_size);
}
struct RaceLog { std::atomic<int> known{0}, other{0}, harness_only{0}; char first_other[400]; };
static RaceLog g_races;
// NOTE: everything in the report callback must be allocation-free: the runtime holds its slot locks while it calls us,
// and a malloc/free from here (e.g. a std::string) deadlocks against another thread that is reporting (seen once, with gdb).
static bool core_frame(const char *sym, char *fn, size_t fnsz) {
    const char *bar = strchr(sym, '|');
    if (!bar) return false;
    if (!strstr(bar, "/lltdResponder/") && !strstr(bar, "lltd_esp32")) return false;
    size_t n = (size_t)(bar - sym);
    if (n >= fnsz) n = fnsz - 1;
    memcpy(fn, sym, n); fn[n] = 0;
    char *p = strchr(fn, '(');
    if (p) *p = 0;
    return true;
}
extern "C" void __tsan_on_report(void *rep) {
    const char *desc = ""; int cnt, sc, mc = 0, lc, mxc, tc, utc; void *sl[4];
    __tsan_get_report_data(rep, &desc, &cnt, &sc, &mc, &lc, &mxc, &tc, &utc, sl, 4);
    static thread_local char inner[2][128];
    static thread_local char buf[600];
    inner[0][0] = inner[1][0] = 0;
    int with_core = 0;
    for (int i = 0; i < mc && i < 2; i++) {
        int tid, sz, wr, at; void *addr; void *tr[48];
        memset(tr, 0, sizeof tr);
        __tsan_get_report_mop(rep, (unsigned long)i, &tid, &addr, &sz, &wr, &at, tr, 48);
        for (int k = 0; k < 48 && tr[k]; k++) {
            __sanitizer_symbolize_pc(tr[k], "%f|%s", buf, sizeof buf);
            if (core_frame(buf, inner[i], sizeof inner[i])) { with_core++; break; }
        }
    }
    if (with_core == 0) { g_races.harness_only++; return; }
    // known finding D8: for both racing accesses the innermost core frame is lltd_state_for_iface
    if (mc >= 2 && !strcmp(inner[0], "lltd_state_for_iface") && !strcmp(inner[1], "lltd_state_for_iface")) { g_races.known++; return; }
    if (g_races.other++ == 0) snprintf(g_races.first_other, sizeof g_races.first_other, "%s: innermost core frames %s / %s", desc, inner[0][0] ? inner[0] : "(none)", inner[1][0] ? inner[1] : "(none)");
}

struct ThreadArg { World *w; int ifi; HCfg h; std::vector<Op> ops; pthread_barrier_t *bar; std::vector<std::vector<Ev>> out; };
static void *worker(void *p) {
    ThreadArg *a = (ThreadArg *)p;
    Shadow sh;
    pthread_barrier_wait(a->bar);
    for (auto &op : a->ops) a->out.push_back(step(*a->w, a->ifi, a->h, op, sh));
    return nullptr;
}
static Verdict run(const Case &c) {
    Verdict v;
    int phase = (int)c.c(12);
    std::vector<std::vector<Ev>> s[2];
    if (phase == 1) { s[0] = solo(c, 0); s[1] = solo(c, 1); }
    int known0 = g_races.known, other0 = g_races.other;
    {
        World w;
        HCfg::from_case(c).apply_global(w);
        ThreadArg ta[2];
        pthread_barrier_t bar;
        pthread_barrier_init(&bar, nullptr, 2);
        for (int i = 0; i < 2; i++) {
            ta[i].w = &w; ta[i].h = cfg_of(c, i); ta[i].ifi = w.add_if(ta[i].h.ifcfg()); ta[i].ops = ops_of(c, i); ta[i].bar = &bar;
        }
        if (phase == 1)   // warm-up: each interface's record is created sequentially before the threads start (excludes the known first-frame race by construction)
            for (int i = 0; i < 2; i++) { Mac m = ta[i].h.st_real(3); (void)w.deliver(ta[i].ifi, mk_simple(BCAST, m, 0, OP_RESET, BCAST, m, 0)); }
        pthread_t th[2];
        for (int i = 0; i < 2; i++) pthread_create(&th[i], nullptr, worker, &ta[i]);
        for (int i = 0; i < 2; i++) pthread_join(th[i], nullptr);
        pthread_barrier_destroy(&bar);
        if (phase == 1)
            for (int i = 0; i < 2 && v.ok; i++)
                for (size_t k = 0; k < ta[i].out.size() && v.ok; k++)
                    if (!(ta[i].out[k] == s[i][k])) v.fail(fmt("thread of interface %d, step %zu: trace differs from the trace the same history produces alone (%zu vs %zu events)", i, k, ta[i].out[k].size(), s[i][k].size()));
    }
    int dk = g_races.known - known0, dother = g_races.other - other0;
    if (dother > 0) v.fail(fmt("ThreadSanitizer: %s", g_races.first_other), "");
    else if (dk > 0) v.fail(fmt("ThreadSanitizer: data race between two receive threads inside lltd_state_for_iface (%d report(s))", dk), "tsan-race-lltd_state_for_iface");
    v.nontrivial = ops_of(c, 0).size() >= 1 && ops_of(c, 1).size() >= 1;
    v.cls(phase ? "phase-B-warmed-up" : "phase-A-both-first-frames");
    return v;
}
#endif

int main(int argc, char **argv) {
    Args a = parse_args(argc, argv);
    if (!a.replay.empty()) return replay_case(a, run);
    zygote_start(run);   // before any code under test runs in this process
    Current::install(a.failing);
    Evidence ev;
    HistWeights w;
    w.commands_from_active_only = false; w.probe = 5; w.qlt = 4; w.nstations = 3; w.raw = 0; w.pburst = 1;
    auto gen = [=](int force_phase) {
        return rc::gen::exec([=] {
            HCfg h = *hg::cfg_gen();
            Case c; h.to_case(c);
            HCfg h1 = *hg::cfg_gen();
            c.cfg.push_back((int64_t)h1.mtu); c.cfg.push_back(h1.wifi); c.cfg.push_back((int64_t)(h1.own == h.own ? h.own ^ 0x0100 : h1.own));
            c.cfg.push_back(*gx::pick({0, 0, 0, 1, 1, 2}));
            c.cfg.push_back(force_phase >= 0 ? force_phase : *gx::pick({0, 1, 1, 1}));
            auto o0 = *hg::ops_gen(w, 1, 25), o1 = *hg::ops_gen(w, 1, 25);
            if (*gx::chance(40)) { Op r; r.kind = K_RESET; r.a = {*gx::range<int64_t>(0, 2), 0, 1}; o1.insert(o1.begin() + (long)(o1.size() / 2), r); }   // Reset on one interface in the middle of the other's session
            size_t i0 = 0, i1 = 0;
            while (i0 < o0.size() || i1 < o1.size()) {   // generated merge order
                bool take0 = i1 >= o1.size() || (i0 < o0.size() && *gx::chance(50));
                Op o = take0 ? o0[i0++] : o1[i1++];
                o.kind += take0 ? 0 : 100;
                c.ops.push_back(o);
            }
            if (force_phase < 0 && *gx::chance(30)) {   // a third interface whose frames fall between the other two's (sequential build only)
                auto o2 = *hg::ops_gen(w, 1, 12);
                for (auto &o : o2) { o.kind += 200; c.ops.insert(c.ops.begin() + *gx::range<int>(0, (int)c.ops.size()), o); }
            }
            return c;
        });
    };
    bool ok;
#ifndef FLAVOUR_TSAN
    ev.rule = "part 1 (this build): two interface contexts with independently generated configurations (or identical ones incl. the same station table) and histories, generated merge order, Reset on one in the middle of the other's session; "
              "per-interface transmit trace under the interleaving must equal the trace of the same history run alone in a fresh process state (for a sample of the cases, and for a deterministic family of configuration-dependent requests on two differently configured interfaces, 'alone' literally runs in a freshly forked process). part 1b: the automata layer - two or three complete sets of engines driven by frames, ticks and a common clock: each set's condition after every one of its frames/ticks equals what the same history gives when the other sets do not exist. part 2 (TSan build): see histogram keys c17-threads. "
              "non-trivial = both histories elicit >= 2 transmissions and the merge alternates >= 2 times; distinct = digest of the case";
    // deterministic family, each case in a fresh process: two interfaces that differ in every configuration value, every order of "who
    // sees a frame first", and on each the requests whose answers depend on the interface's own configuration (Hello attributes, large-TLV
    // chunking, QueryResp capacity, Emit capacity)
    ok = true;
    {
        long k = 0;
        for (size_t m0 : {(size_t)576, (size_t)1500, (size_t)9216}) for (size_t m1 : {(size_t)576, (size_t)1500, (size_t)9216}) for (int first = 0; first < 2; first++) {
            if (!ok || k++ % a.nshards != a.shard) continue;
            HCfg h; h.mtu = m0; h.wifi = 0; h.icon = Bytes(12000, 0x49); h.friendly = Bytes(700, 0x46); h.hostname = Bytes{'a', 'b'};
            Case c; h.to_case(c);
            c.cfg.push_back((int64_t)m1); c.cfg.push_back(1); c.cfg.push_back(0x0200000000F2LL); c.cfg.push_back(0); c.cfg.push_back(1);
            auto per_if = [&](int i) {
                std::vector<Op> v;
                Op d; d.kind = K_DISCOVER + 100 * i; d.a = {0, 0, 1, 1, 0, 0, -1}; v.push_back(d);
                Op q; q.kind = K_QLT + 100 * i; q.a = {-1, 5, 0x0E, 0, 0}; v.push_back(q);
                Op q2; q2.kind = K_QLT + 100 * i; q2.a = {-1, 6, 0x11, 0, 0}; v.push_back(q2);
                for (int p = 0; p < 130; p++) { Op o; o.kind = K_PROBE + 100 * i; o.a = {p, p % 3, p & 1, 0}; v.push_back(o); }
                Op qq; qq.kind = K_QUERY + 100 * i; qq.a = {-1, 7}; v.push_back(qq);
                Op e; e.kind = K_EMIT + 100 * i; e.a = {-1, 8, 0xFFFF}; e.blob = Bytes(14, 0); e.blob[0] = 1; v.push_back(e);
                return v;
            };
            std::vector<Op> a0 = per_if(first), a1 = per_if(1 - first);
            c.ops = a0;                                   // the interface that goes first completes its whole history ...
            c.ops.insert(c.ops.end(), a1.begin(), a1.end());   // ... before the other one sees its first frame
            CurrentScope scope(c);
            Verdict v = a.isolate ? run_isolated(run, c) : run(c);
            ev.note(c.digest(), v.ok, [&] { return c.to_text().substr(0, 300); });
            ev.count("c17-config-crosstalk:cases");
            if (!v.ok) { write_file(a.failing, "# c17-config-crosstalk: " + v.why + "\n" + c.to_text()); fprintf(stderr, "FAIL part=c17-config-crosstalk %s\n", v.why.c_str()); ok = false; }
        }
    }
    if (ok) ok = run_cases(a, ev, "c17-interleavings", a.n(15000, 400000), 100, gen(-1), run);
    if (ok) {
        auto geng = rc::gen::exec([] {
            Case c; c.cfg = {7, *gx::pick({2, 2, 3})};
            int n = *gx::range<int>(4, 60);
            c.ops = *rc::gen::resize(n, rc::gen::container<std::vector<Op>>(rc::gen::exec([] {
                Op o;
                int r = *gx::range<int>(0, 99);
                if (r < 50) { o.kind = 1; o.a = {*gx::pick({0, 0, 0, 1, 1, 2, 3, 4, 5}), *gx::range<int64_t>(0, 2), *gx::range<int64_t>(0, 3), *gx::pick({0, 0, 1})}; }
                else if (r < 75) { o.kind = 2; o.a = {*gx::pick({0, 1, 100, 300, 301, 999, 1000, 1001, 5000, 29000, 30000, 31000, 60000, 61000, 62000})}; }
                else { o.kind = 3; o.a = {*gx::pick({-1, -1, 0, 1, 2})}; }
                return o;
            })));
            return c;
        });
        ok = run_cases(a, ev, "c17-engines", a.n(16000, 200000), 100, geng, run);
    }
#else
    ev.rule = "part 2 (this build, ThreadSanitizer, lock-free thread-local port): per round two threads are released by a barrier and each delivers its generated history to its own interface context. Phase A: both contexts new "
              "(both first frames at the same moment); phase B: both contexts warmed up sequentially first. Every ThreadSanitizer report is classified by the innermost core frame of both racing accesses; "
              "phase B additionally compares each thread's trace with the solo trace. non-trivial = both threads deliver >= 1 frame; distinct = digest of the case";
    ok = run_cases(a, ev, "c17-threads-phaseB", a.n(600, 8000), 100, gen(1), run);
    if (ok) ok = run_cases(a, ev, "c17-threads-phaseA", a.n(200, 2000), 100, gen(0), run);
    ev.count("c17-threads:tsan-reports-known-finding(lltd_state_for_iface)", (uint64_t)g_races.known.load());
    ev.count("c17-threads:tsan-reports-other-core", (uint64_t)g_races.other.load());
    ev.count("c17-threads:tsan-reports-harness-only", (uint64_t)g_races.harness_only.load());
#endif
    ev.write(a.out);
    return ok ? 0 : 1;
}
