// C05 — One mapper at a time; Reset releases it; foreign services cannot seize it.
#include "hist.hpp"

struct Stats { int accepted = 0, rejected = 0, resets = 0, foreign_op0 = 0, undetermined = 0, checked = 0, floods = 0; };

static Verdict run_hist(const Case &c, Stats *st_out = nullptr) {
    Verdict v;
    HCfg h = HCfg::from_case(c);
    World w;
    h.apply_global(w);
    int ifi = w.add_if(h.ifcfg());
    Shadow sh;
    OtherIf oif;
    MapperModel mm;
    Stats st;
    const std::vector<Op> ops = expand_repeats(c.ops);
    for (size_t i = 0; i < ops.size() && v.ok; i++) {
        const Op &op = ops[i];
        if (op.kind == K_ADVANCE) { vp_set_now_ms(vp_now_ms() + (uint64_t)op.arg(0)); continue; }
        if (op.kind == K_OTHERIF) { oif.step(w, h, op); continue; }   // Resets, Discovers ... on another interface of the host leave this one's mapper alone
        if (op.kind == K_PBURST) {   // a flood of pairwise distinct probes (no Query): whatever limit the responder hits, the mapper stays the mapper
            Mac own = h.ownmac();
            for (int64_t k = 0; k < std::min<int64_t>(op.arg(1), 1200); k++)
                (void)w.deliver(ifi, mk_simple(own, mac_from_u64(0x0600CC000000ULL + (uint64_t)(op.arg(0) + k)), 0, (k & 1) ? OP_PROBE : OP_TRAIN, own, mac_from_u64(0x0600DD000000ULL + (uint64_t)((op.arg(0) + k) % 5)), 0));
            st.floods++;
            continue;
        }
        Built b = build_frame(h, op, sh);
        if (!b.is_frame) continue;
        Sem sem = frame_sem(b.frame);
        if (b.station < 0 && sem != SEM_NONE && sem != SEM_RESET) continue;   // sender unknown to the model (cannot happen with the generators used here)
        // domain restriction of the statement: a command is issued only by the active mapper or while none is active
        if (sem == SEM_COMMAND && sh.active >= 0 && sh.active != b.station) continue;
        std::vector<Ev> tx = sends_only(w.deliver(ifi, b.frame));
        if (sem == SEM_DISCOVER) {
            int exp = mm.expect_discover(b.station);
            bool answered = !tx.empty();
            if (exp == 2) st.undetermined++;
            else st.checked++;
            if (exp == 1 && !answered) v.fail(fmt("step %zu: Discover from station %d got no reply although no other station can be the active mapper", i, b.station));
            if (exp == 0 && answered) v.fail(fmt("step %zu: Discover from station %d was answered although another station is the active mapper", i, b.station));
            if (answered) st.accepted++; else st.rejected++;
            mm.observe_discover(b.station, answered);
        } else if (sem == SEM_RESET) { mm.reset(); st.resets++; }
        else if (sem == SEM_COMMAND) mm.command(b.station);
        else if (b.frame.size() >= HDR && b.frame[15] >= 2 && b.frame[17] == 0) st.foreign_op0++;
        shadow_update_sem(sh, sem, b);
    }
    v.nontrivial = st.accepted >= 1 && st.rejected >= 1 && (st.resets >= 1 || st.foreign_op0 >= 1);
    if (st.undetermined) v.cls("has-undetermined-discover");
    if (st.foreign_op0) v.cls("foreign-service-opcode-0");
    if (st.resets) v.cls("has-reset");
    if (st.rejected) v.cls("has-rejected-discover");
    if (st.floods) v.cls("has-probe-flood");
    if (st_out) *st_out = st;
    return v;
}
static Verdict run(const Case &c) { return run_hist(c); }

static Op mkop(int kind, std::vector<int64_t> a) { Op o; o.kind = kind; o.a = std::move(a); return o; }

int main(int argc, char **argv) {
    Args a = parse_args(argc, argv);
    if (!a.replay.empty()) return replay_case(a, run);
    zygote_start(run);   // before any code under test runs in this process
    Current::install(a.failing);
    Evidence ev;
    ev.rule = "(1) exhaustive single-step sweep: all 256x256 (ToS, opcode) pairs x {no mapper, X active} x {probe Discover from X, from third station Z}; "
              "the frame is sent by a stranger Y (by X for the command cells the statement's domain restriction excludes); reply/silence of the probe must "
              "match the reference model. (2) random histories over 3 stations, any ToS, every opcode, commands only from the active mapper. "
              "non-trivial (histories) = >= 1 accepted and >= 1 rejected Discover and (>= 1 Reset or >= 1 frame with ToS >= 2 and opcode 0); "
              "non-trivial (sweep) = cell whose model outcome is determined; distinct = digest of the case";
    bool ok = true;
    // ---- (1) exhaustive sweep, sharded by ToS
    {
        HCfg h; h.part = 1; h.mtu = 576;
        uint64_t cells = 0, determined = 0;
        for (int tos = a.shard; tos < 256 && ok; tos += a.nshards) {
            for (int opc = 0; opc < 256 && ok; opc++) {
                for (int active = 0; active < 2 && ok; active++) {
                    for (int probe = 0; probe < 2 && ok; probe++) {
                        Case c;
                        h.to_case(c);
                        if (active) c.ops.push_back(mkop(K_DISCOVER, {0, 0, 1, 1, 0, 0, -1}));
                        bool is_cmd = (tos == 0 && (opc == OP_EMIT || opc == OP_QUERY)) || (tos <= 1 && opc == OP_QLT);
                        int sender = (active && is_cmd) ? 0 : 1;
                        c.ops.push_back(mkop(K_SHELL, {sender, tos, opc, 1, 0}));
                        c.ops.push_back(mkop(K_DISCOVER, {probe ? 2 : 0, 0, 2, 2, 0, 0, -1}));
                        CurrentScope scope(c);
                        Stats st;
                        Verdict v = run_hist(c, &st);
                        cells++;
                        bool det = st.undetermined == 0;
                        if (det) determined++;
                        ev.note(c.digest(), det && v.ok, [&] { return c.to_text(); });
                        if (!v.ok) {
                            write_file(a.failing, "# c05-sweep: " + v.why + "\n" + c.to_text());
                            fprintf(stderr, "FAIL part=c05-sweep tos=%d opcode=%d active=%d probe=%d: %s\n", tos, opc, active, probe, v.why.c_str());
                            ok = false;
                        }
                    }
                }
            }
        }
        ev.count("c05-sweep:runs", cells);
        ev.count("c05-sweep:runs-with-determined-outcome", determined);
        ev.extra["sweep_exhaustive_over"] = "\"256 ToS x 256 opcodes x 2 states x 2 probes (all shards together)\"";
    }
    // ---- (2) random histories
    if (ok) {
        HistWeights w;
        w.discover = 10; w.reset = 3; w.shell = 6; w.hello = 1; w.probe = 3; w.emit = 2; w.query = 2; w.qlt = 2; w.otherif = 2; w.repeat = 1;
        auto base = hg::hist_case(w, 5, 60);
        auto gen = rc::gen::exec([=] {
            Case c = *base;
            if (*gx::chance(2)) { Op f; f.kind = K_PBURST; f.a = {*gx::range<int64_t>(0, 100000), *gx::pick({1023, 1024, 1025, 1100})}; c.ops.insert(c.ops.begin() + *gx::range<int>(0, (int)c.ops.size()), f); }
            return c;
        });
        ok = run_cases(a, ev, "c05-histories", a.n(80000, 800000), 100, gen, run);
    }
    ev.write(a.out);
    return ok ? 0 : 1;
}
