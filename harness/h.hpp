// Shared harness code: frame builder, independent byte-level decoder, generic case
// representation (text-serialisable, shrinkable), world (interfaces + delivery), evidence.
// Includes NO repo header: wire layouts are written from MS-LLTD byte offsets.
#pragma once
#include <algorithm>
#include <array>
#include <cinttypes>
#include <cstdarg>
#include <cstdint>
#include <cstdio>
#include <cstdlib>
#include <cstring>
#include <fstream>
#include <functional>
#include <map>
#include <memory>
#include <set>
#include <sstream>
#include <string>
#include <tuple>
#include <unordered_set>
#include <vector>
#include <deque>

#include "../port/bridge.h"
#include "../port/vport.h"

using Bytes = std::vector<uint8_t>;

// ------------------------------------------------------------------ small utils
static inline uint64_t fnv(const void *p, size_t n, uint64_t h = 1469598103934665603ULL) {
    const uint8_t *b = (const uint8_t *)p;
    for (size_t i = 0; i < n; i++) { h ^= b[i]; h *= 1099511628211ULL; }
    return h;
}
static inline void cpy(void *d, const void *s, size_t n) { if (n) memcpy(d, s, n); }
static inline std::string hex(const uint8_t *p, size_t n) {
    static const char *d = "0123456789abcdef";
    std::string s;
    s.reserve(n * 2);
    for (size_t i = 0; i < n; i++) { s += d[p[i] >> 4]; s += d[p[i] & 15]; }
    return s;
}
static inline std::string hex(const Bytes &b) { return hex(b.data(), b.size()); }
static inline Bytes unhex(const std::string &s) {
    Bytes b;
    auto v = [](char c) { return c <= '9' ? c - '0' : (c | 32) - 'a' + 10; };
    for (size_t i = 0; i + 1 < s.size(); i += 2) b.push_back((uint8_t)(v(s[i]) << 4 | v(s[i + 1])));
    return b;
}
static inline std::string fmt(const char *f, ...) __attribute__((format(printf, 1, 2)));
static inline std::string fmt(const char *f, ...) {
    char buf[1024];
    va_list ap;
    va_start(ap, f);
    vsnprintf(buf, sizeof buf, f, ap);
    va_end(ap);
    return buf;
}

struct Mac {
    uint8_t b[6];
    bool operator==(const Mac &o) const { return memcmp(b, o.b, 6) == 0; }
    bool operator!=(const Mac &o) const { return !(*this == o); }
    bool operator<(const Mac &o) const { return memcmp(b, o.b, 6) < 0; }
    std::string str() const { return hex(b, 6); }
};
static const Mac BCAST = {{0xFF, 0xFF, 0xFF, 0xFF, 0xFF, 0xFF}};
static const Mac ZEROMAC = {{0, 0, 0, 0, 0, 0}};
static inline Mac mac_from_u64(uint64_t v) {
    Mac m;
    for (int i = 0; i < 6; i++) m.b[i] = (uint8_t)(v >> (8 * (5 - i)));
    return m;
}
static inline uint64_t mac_to_u64(const Mac &m) {
    uint64_t v = 0;
    for (int i = 0; i < 6; i++) v = v << 8 | m.b[i];
    return v;
}

// ------------------------------------------------------------------ wire constants (MS-LLTD)
enum : uint8_t {
    OP_DISCOVER = 0, OP_HELLO = 1, OP_EMIT = 2, OP_TRAIN = 3, OP_PROBE = 4, OP_ACK = 5, OP_QUERY = 6,
    OP_QUERYRESP = 7, OP_RESET = 8, OP_CHARGE = 9, OP_FLAT = 10, OP_QLT = 11, OP_QLTRESP = 12
};
static const size_t HDR = 32;

static inline void put16(Bytes &b, uint16_t v) { b.push_back(v >> 8); b.push_back(v & 0xFF); }
static inline void putmac(Bytes &b, const Mac &m) { b.insert(b.end(), m.b, m.b + 6); }
static inline uint16_t get16(const uint8_t *p) { return (uint16_t)(p[0] << 8 | p[1]); }
static inline uint32_t get32(const uint8_t *p) { return (uint32_t)p[0] << 24 | p[1] << 16 | p[2] << 8 | p[3]; }
static inline Mac getmac(const uint8_t *p) { Mac m; memcpy(m.b, p, 6); return m; }

static inline Bytes mk_header(const Mac &edst, const Mac &esrc, uint8_t tos, uint8_t opcode,
                              const Mac &rdst, const Mac &rsrc, uint16_t seq,
                              uint8_t version = 1, uint8_t reserved = 0, uint16_t ethertype = 0x88D9) {
    Bytes f;
    f.reserve(64);
    putmac(f, edst); putmac(f, esrc); put16(f, ethertype);
    f.push_back(version); f.push_back(tos); f.push_back(reserved); f.push_back(opcode);
    putmac(f, rdst); putmac(f, rsrc); put16(f, seq);
    return f;
}
// Discover: generation, station count, 6-byte station addresses
static inline Bytes mk_discover(const Mac &esrc, const Mac &rsrc, uint8_t tos, uint16_t xid, uint16_t gen,
                                const std::vector<Mac> &stations, long declared = -1) {
    Bytes f = mk_header(BCAST, esrc, tos, OP_DISCOVER, BCAST, rsrc, xid);
    put16(f, gen);
    put16(f, (uint16_t)(declared < 0 ? stations.size() : declared));
    for (auto &s : stations) putmac(f, s);
    return f;
}
struct EmitDesc { uint8_t kind, pause; Mac src, dst; };
static inline Bytes mk_emit(const Mac &edst, const Mac &esrc, const Mac &rdst, const Mac &rsrc, uint16_t seq,
                            const std::vector<EmitDesc> &d, long declared = -1, uint8_t tos = 0) {
    Bytes f = mk_header(edst, esrc, tos, OP_EMIT, rdst, rsrc, seq);
    put16(f, (uint16_t)(declared < 0 ? d.size() : declared));
    for (auto &e : d) { f.push_back(e.kind); f.push_back(e.pause); putmac(f, e.src); putmac(f, e.dst); }
    return f;
}
static inline Bytes mk_simple(const Mac &edst, const Mac &esrc, uint8_t tos, uint8_t op, const Mac &rdst,
                              const Mac &rsrc, uint16_t seq) {
    return mk_header(edst, esrc, tos, op, rdst, rsrc, seq);
}
static inline Bytes mk_qlt(const Mac &edst, const Mac &esrc, const Mac &rdst, const Mac &rsrc, uint16_t seq,
                           uint8_t type, uint16_t offset, uint8_t tos = 0) {
    Bytes f = mk_header(edst, esrc, tos, OP_QLT, rdst, rsrc, seq);
    f.push_back(type); f.push_back(0); put16(f, offset);
    return f;
}
static inline Bytes mk_hello(const Mac &esrc, uint8_t tos, uint16_t gen, const Mac &cur, const Mac &app) {
    Bytes f = mk_header(BCAST, esrc, tos, OP_HELLO, BCAST, esrc, 0);
    put16(f, gen); putmac(f, cur); putmac(f, app);
    f.push_back(0x01); f.push_back(6); putmac(f, esrc);
    f.push_back(0x00);
    return f;
}

// ------------------------------------------------------------------ independent decoder
struct Hdr {
    Mac edst, esrc; uint16_t ethertype; uint8_t ver, tos, res, op; Mac rdst, rsrc; uint16_t seq;
};
static inline bool dec_hdr(const Bytes &f, Hdr &h) {
    if (f.size() < HDR) return false;
    const uint8_t *p = f.data();
    h.edst = getmac(p); h.esrc = getmac(p + 6); h.ethertype = get16(p + 12);
    h.ver = p[14]; h.tos = p[15]; h.res = p[16]; h.op = p[17];
    h.rdst = getmac(p + 18); h.rsrc = getmac(p + 24); h.seq = get16(p + 30);
    return true;
}
struct Tlv { uint8_t type; Bytes val; };
struct Hello { uint16_t gen; Mac cur, app; std::vector<Tlv> tlvs; };
// legal value length per Hello property type (MS-LLTD 2.2.2.x); returns false for unknown types
static inline bool tlv_len_legal(uint8_t t, size_t n) {
    switch (t) {
        case 0x01: return n == 6;  case 0x02: return n == 4;  case 0x03: return n == 4;
        case 0x04: return n == 1;  case 0x05: return n == 6;  case 0x06: return n <= 32;
        case 0x07: return n == 4;  case 0x08: return n == 16; case 0x09: return n == 2;
        case 0x0A: return n == 8;  case 0x0B: return n == 0;  case 0x0C: return n == 4;  case 0x0D: return n == 4;
        case 0x0E: return n == 0;  case 0x0F: return n <= 32; case 0x10: return n <= 64;
        case 0x11: return n == 0;  case 0x12: return n == 16; case 0x13: return n <= 64;
        case 0x14: return n == 4;  case 0x15: return n == 2;  case 0x16: return n % 6 == 0 && n <= 36;
        case 0x17: return n == 0;  case 0x18: return n == 0;  case 0x19: return n == 0;
        case 0x1A: return n == 0;
        default: return false;
    }
}
// returns "" when the Hello body is well-formed, otherwise what is wrong
static inline std::string dec_hello(const Bytes &f, Hello &h) {
    if (f.size() < HDR + 14 + 1) return "hello shorter than header+upper header+end marker";
    const uint8_t *p = f.data() + HDR;
    h.gen = get16(p); h.cur = getmac(p + 2); h.app = getmac(p + 8);
    size_t o = HDR + 14;
    h.tlvs.clear();
    std::set<uint8_t> seen;
    for (;;) {
        if (o >= f.size()) return "property list runs off the frame without end marker";
        uint8_t t = f[o];
        if (t == 0x00) {
            if (o + 1 != f.size()) return fmt("end marker at %zu is not the last byte (frame %zu)", o, f.size());
            break;
        }
        if (o + 2 > f.size()) return "truncated property header";
        size_t n = f[o + 1];
        if (o + 2 + n > f.size()) return fmt("property 0x%02x length %zu runs off the frame", t, n);
        if (!tlv_len_legal(t, n)) return fmt("property 0x%02x has illegal length %zu", t, n);
        if (!seen.insert(t).second) return fmt("property 0x%02x occurs twice", t);
        h.tlvs.push_back({t, Bytes(f.begin() + o + 2, f.begin() + o + 2 + n)});
        o += 2 + n;
    }
    if (h.tlvs.empty() || h.tlvs[0].type != 0x01) return "host identifier is not the first property";
    return "";
}
static inline const Tlv *find_tlv(const Hello &h, uint8_t t) {
    for (auto &x : h.tlvs) if (x.type == t) return &x;
    return nullptr;
}
struct QDesc {
    uint16_t type; Mac rsrc, esrc, edst;
    bool operator<(const QDesc &o) const {
        return std::tie(type, rsrc, esrc, edst) < std::tie(o.type, o.rsrc, o.esrc, o.edst);
    }
    bool operator==(const QDesc &o) const { return !(*this < o) && !(o < *this); }
    std::string str() const { return fmt("%u:%s/%s>%s", type, rsrc.str().c_str(), esrc.str().c_str(), edst.str().c_str()); }
};
struct QResp { bool more, err; uint16_t n; std::vector<QDesc> d; };
static inline std::string dec_qresp(const Bytes &f, QResp &q) {
    if (f.size() < HDR + 2) return "QueryResp shorter than 34 bytes";
    uint16_t w = get16(f.data() + HDR);
    q.more = w & 0x8000; q.err = w & 0x4000; q.n = w & 0x3FFF;
    if (f.size() != HDR + 2 + 20u * q.n) return fmt("QueryResp length %zu != 34+20*%u", f.size(), q.n);
    q.d.clear();
    for (unsigned i = 0; i < q.n; i++) {
        const uint8_t *p = f.data() + HDR + 2 + 20 * i;
        q.d.push_back({get16(p), getmac(p + 2), getmac(p + 8), getmac(p + 14)});
    }
    return "";
}
struct QLtResp { bool more; uint16_t len; Bytes payload; };
static inline std::string dec_qlt(const Bytes &f, QLtResp &q) {
    if (f.size() < HDR + 2) return "QueryLargeTlvResp shorter than 34 bytes";
    uint16_t w = get16(f.data() + HDR);
    q.more = w & 0x8000; q.len = w & 0x7FFF;
    if (f.size() != HDR + 2 + (size_t)q.len) return fmt("QueryLargeTlvResp length %zu != 34+%u", f.size(), q.len);
    q.payload.assign(f.begin() + HDR + 2, f.end());
    return "";
}
// Oracle A of C02: "" if f is a well-formed frame a responder may send on an interface with this MTU/address
static inline std::string wellformed(const Bytes &f, size_t mtu, const Mac &own, bool check_mtu = true) {
    Hdr h;
    if (!dec_hdr(f, h)) return fmt("frame of %zu bytes is shorter than the 32-byte header", f.size());
    if (check_mtu && f.size() > mtu) return fmt("frame of %zu bytes exceeds MTU %zu", f.size(), mtu);
    if (h.ethertype != 0x88D9) return fmt("ethertype 0x%04x", h.ethertype);
    if (h.ver != 1) return fmt("version %u", h.ver);
    if (h.res != 0) return fmt("reserved byte %u", h.res);
    if (h.rsrc != own) return "real source is not the interface's own address";
    // the responder speaks the two discovery services only; Probe, Train, ACK and QueryResp exist in topology discovery alone
    if (h.tos > 1) return fmt("type of service %u is not a discovery service", h.tos);
    if (h.tos != 0 && (h.op == OP_TRAIN || h.op == OP_PROBE || h.op == OP_ACK || h.op == OP_QUERYRESP)) return fmt("opcode %u sent with type of service %u: it exists in topology discovery (0) only", h.op, h.tos);
    switch (h.op) {
        case OP_HELLO: { Hello x; return dec_hello(f, x); }
        case OP_TRAIN: case OP_PROBE: case OP_ACK:
            if (f.size() != HDR) return fmt("opcode %u frame has %zu bytes, expected 32", h.op, f.size());
            return "";
        case OP_QUERYRESP: { QResp q; return dec_qresp(f, q); }
        case OP_QLTRESP: { QLtResp q; return dec_qlt(f, q); }
        default: return fmt("opcode %u is not one a responder may send", h.op);
    }
}

// ------------------------------------------------------------------ generic case representation
struct Op {
    int kind = 0;
    std::vector<int64_t> a;   // integer arguments
    Bytes blob;               // optional bytes
    int64_t arg(size_t i, int64_t dflt = 0) const { return i < a.size() ? a[i] : dflt; }
};
struct Case {
    std::vector<int64_t> cfg;       // property-specific configuration integers
    std::vector<Bytes> blobs;       // property-specific configuration blobs
    std::vector<Op> ops;
    std::string to_text() const {
        std::ostringstream o;
        o << "cfg";
        for (auto v : cfg) o << ' ' << v;
        o << '\n';
        for (auto &b : blobs) o << "blob " << (b.empty() ? "-" : hex(b)) << '\n';
        for (auto &op : ops) {
            o << "op " << op.kind;
            for (auto v : op.a) o << ' ' << v;
            if (!op.blob.empty()) o << " | " << hex(op.blob);
            o << '\n';
        }
        return o.str();
    }
    static bool from_text(const std::string &s, Case &c) {
        c = Case();
        std::istringstream in(s);
        std::string line;
        while (std::getline(in, line)) {
            if (line.empty() || line[0] == '#') continue;
            std::istringstream ls(line);
            std::string w;
            ls >> w;
            if (w == "cfg") { int64_t v; while (ls >> v) c.cfg.push_back(v); }
            else if (w == "blob") { std::string h; ls >> h; c.blobs.push_back(h == "-" ? Bytes() : unhex(h)); }
            else if (w == "op") {
                Op op; ls >> op.kind; std::string t;
                while (ls >> t) { if (t == "|") { std::string h; ls >> h; op.blob = unhex(h); break; } op.a.push_back(strtoll(t.c_str(), nullptr, 10)); }
                c.ops.push_back(op);
            } else return false;
        }
        return true;
    }
    uint64_t digest() const { std::string t = to_text(); return fnv(t.data(), t.size()); }
    int64_t c(size_t i, int64_t dflt = 0) const { return i < cfg.size() ? cfg[i] : dflt; }
};
static inline bool read_file(const std::string &p, std::string &out) {
    std::ifstream f(p, std::ios::binary);
    if (!f) return false;
    std::ostringstream s; s << f.rdbuf(); out = s.str();
    return true;
}
static inline void write_file(const std::string &p, const std::string &s) {
    std::ofstream f(p, std::ios::binary | std::ios::trunc);
    f << s;
}

// ------------------------------------------------------------------ interface configuration
struct IfCfg {
    size_t mtu = 1500; Mac mac = {{0x02, 0, 0, 0, 0, 0x01}};
    uint32_t flags = 0, iftype = 6, ipv4 = 0x0100000A, speed = 1000000; uint8_t ipv6[16] = {0};
    int wifi = 0; uint8_t wifi_mode = 1; Mac bssid = {{0x0a, 1, 2, 3, 4, 5}}; Bytes ssid; int ssid_untrunc = 0;
    uint16_t rate = 108; int8_t rssi = -60; uint32_t phy = 0; uint32_t fail = 0;
    size_t rx_capacity = 0;   // size of the daemon's receive buffer; 0 = the MTU. A daemon that cannot learn the MTU assumes 1500 for its buffer just as the core does.
    void apply(vif *v, int id) const {
        memset(v, 0, sizeof *v);
        v->id = id; v->mtu = mtu; memcpy(v->mac, mac.b, 6); v->flags = flags; v->iftype = iftype;
        v->ipv4_be = ipv4; memcpy(v->ipv6, ipv6, 16); v->speed = speed; v->wifi = wifi; v->wifi_mode = wifi_mode;
        memcpy(v->bssid, bssid.b, 6); v->ssid_len = std::min<size_t>(ssid.size(), 64);
        cpy(v->ssid, ssid.data(), v->ssid_len); v->ssid_untrunc = ssid_untrunc; v->rate = rate; v->rssi = rssi;
        v->phy = phy; v->fail = fail;
    }
};

// ------------------------------------------------------------------ events and world
struct Ev {
    int kind;        // VE_SEND / VE_SEND_REFUSED / VE_SLEEP
    int ifid;        // interface the send went out on (-1 for sleep)
    uint32_t ms;
    Bytes data;
    bool operator==(const Ev &o) const { return kind == o.kind && ifid == o.ifid && ms == o.ms && data == o.data; }
    std::string str() const {
        if (kind == VE_SLEEP) return fmt("sleep(%u)", ms);
        return fmt("%s[if%d,%zu]%s", kind == VE_SEND ? "send" : "send-refused", ifid, data.size(), hex(data).c_str());
    }
};
static inline std::vector<Ev> sends_only(const std::vector<Ev> &v) {
    std::vector<Ev> r;
    for (auto &e : v) if (e.kind == VE_SEND) r.push_back(e);
    return r;
}
static inline std::vector<Ev> drain_log() {
    std::vector<Ev> r;
    size_t n = vp_log_count();
    for (size_t i = 0; i < n; i++) {
        const vp_event *e = vp_log_get(i);
        Ev x;
        x.kind = e->kind; x.ms = e->ms;
        x.ifid = e->ctx ? ((vif *)e->ctx)->id : -1;
        if (e->kind != VE_SLEEP) x.data.assign(e->data, e->data + e->len);
        r.push_back(std::move(x));
    }
    vp_log_clear();
    return r;
}

enum DeliverMode { CLEAN, DAEMON };
// One process-wide world at a time: resets port + core state on construction and destruction.
struct World {
    std::vector<std::unique_ptr<vif>> ifs;
    std::vector<uint8_t *> rxbuf;        // daemon-mode buffers, malloc(MTU) each
    std::vector<size_t> rxcap;
    Bytes icon, friendly;                // backing store for vp_global pointers
    bool torn_down = false;
    World() {
        br_reset_iface_states();
        if (br_reset_level() == 0) vp_ledger_disown_all();   // fallback mode: the core still references the records of earlier cases
        vp_reset_all();
    }
    // Forget everything the core holds for this world's interfaces: what a record retains (observations, cached icon) is released
    // through the public behaviour (a topology Reset per interface, all faults cleared), then the records themselves are dropped.
    void teardown_core() {
        if (torn_down) return;
        torn_down = true;
        vp_fail_alloc_at(0); vp_fail_alloc_from(0); vp_fail_send_at(0); vp_fail_send_always(0);
        vp_log_enable(0);
        static const uint8_t reset_frame[32] = {0xFF, 0xFF, 0xFF, 0xFF, 0xFF, 0xFF, 2, 0, 0, 0, 0, 0xFE, 0x88, 0xD9, 1, 0, 0, 8,
                                                0xFF, 0xFF, 0xFF, 0xFF, 0xFF, 0xFF, 2, 0, 0, 0, 0, 0xFE, 0, 0};
        for (size_t i = 0; i < ifs.size(); i++) { ifs[i]->fail = 0; memset(rxbuf[i], 0, rxcap[i]); memcpy(rxbuf[i], reset_frame, 32); br_parse_frame(rxbuf[i], ifs[i].get()); }
        br_reset_iface_states();
    }
    ~World() {
        teardown_core();
        for (auto p : rxbuf) free(p);
        if (br_reset_level() == 0) { for (auto &u : ifs) (void)u.release(); vp_ledger_disown_all(); }   // fallback: a context address must never be reused, records stay referenced
        vp_reset_all();
    }
    // blocks that legitimately stay allocated after teardown-style cleanup: none, or one record per interface in fallback mode
    size_t leftover_records() const { return br_reset_level() == 0 ? ifs.size() : 0; }
    World(const World &) = delete;
    int add_if(const IfCfg &c) {
        ifs.emplace_back(new vif);
        c.apply(ifs.back().get(), (int)ifs.size() - 1);
        size_t cap = c.rx_capacity ? c.rx_capacity : c.mtu;
        rxbuf.push_back((uint8_t *)malloc(cap));   // exact MTU bytes: ASan guards byte MTU
        rxcap.push_back(cap);
        memset(rxbuf.back(), 0, cap);
        return (int)ifs.size() - 1;
    }
    vif *ctx(int i) { return ifs[i].get(); }
    void set_icon(const Bytes &b) { icon = b; vp_global()->icon = icon.empty() ? nullptr : icon.data(); vp_global()->icon_len = icon.size(); }
    void set_icon_present_empty() { icon.assign(1, 0); vp_global()->icon = icon.data(); vp_global()->icon_len = 0; }
    void set_friendly(const Bytes &b) { friendly = b; vp_global()->friendly = friendly.empty() ? nullptr : friendly.data(); vp_global()->friendly_len = friendly.size(); }
    void set_hostname(const Bytes &b, int untrunc = 0) {
        vp_global_cfg *g = vp_global();
        g->hostname_len = std::min<size_t>(b.size(), 64); cpy(g->hostname, b.data(), g->hostname_len); g->hostname_untrunc = untrunc;
    }
    void set_hwid(const Bytes &b, int untrunc = 0) { vp_global_cfg *g = vp_global(); g->hwid_len = std::min<size_t>(b.size(), 160); cpy(g->hwid, b.data(), g->hwid_len); g->hwid_untrunc = untrunc; }
    // place a frame in a receive buffer as a daemon would (length clamped to MTU); returns the buffer
    uint8_t *stage(int i, const Bytes &f, DeliverMode m, uint8_t **to_free) {
        size_t n = std::min(f.size(), rxcap[i]);
        *to_free = nullptr;
        if (m == DAEMON) { cpy(rxbuf[i], f.data(), n); return rxbuf[i]; }
        uint8_t *b = (uint8_t *)calloc(1, rxcap[i]);
        cpy(b, f.data(), n);
        *to_free = b;
        return b;
    }
    std::vector<Ev> deliver(int i, const Bytes &f, DeliverMode m = CLEAN) {
        uint8_t *tf;
        uint8_t *b = stage(i, f, m, &tf);
        br_parse_frame(b, ctx(i));
        free(tf);
        return drain_log();
    }
};

// ------------------------------------------------------------------ evidence
static inline std::string jstr(const std::string &s) {
    std::string o = "\"";
    for (unsigned char c : s) {
        if (c == '"' || c == '\\') { o += '\\'; o += c; }
        else if (c == '\n') o += "\\n";
        else if (c < 0x20 || c >= 0x7f) o += fmt("\\u%04x", c);
        else o += c;
    }
    return o + "\"";
}
struct Evidence {
    uint64_t evaluations = 0;
    std::unordered_set<uint64_t> nontrivial;
    std::map<std::string, uint64_t> hist;
    std::vector<std::string> samples;
    std::map<std::string, std::string> extra;   // raw JSON values
    std::string rule, level_hint;
    bool exhaustive = false;
    size_t max_samples = 4;
    void count(const std::string &k, uint64_t n = 1) { hist[k] += n; }
    // one evaluated case; digest identifies it; sample text is kept for the first few non-trivial ones
    void note(uint64_t digest, bool nontriv, const std::function<std::string()> &sample) {
        evaluations++;
        if (nontriv && nontrivial.insert(digest).second && samples.size() < max_samples) samples.push_back(sample());
    }
    void write(const std::string &path) const {
        std::ostringstream o;
        o << "{\n \"evaluations\": " << evaluations << ",\n \"distinct_nontrivial\": " << nontrivial.size()
          << ",\n \"exhaustive\": " << (exhaustive ? "true" : "false") << ",\n \"rule\": " << jstr(rule) << ",\n \"histogram\": {";
        bool first = true;
        for (auto &kv : hist) { o << (first ? "" : ",") << "\n  " << jstr(kv.first) << ": " << kv.second; first = false; }
        o << "\n },\n \"samples\": [";
        first = true;
        for (auto &s : samples) { o << (first ? "" : ",") << "\n  " << jstr(s); first = false; }
        o << "\n ],\n \"extra\": {";
        first = true;
        for (auto &kv : extra) { o << (first ? "" : ",") << "\n  " << jstr(kv.first) << ": " << kv.second; first = false; }
        o << "\n }\n}\n";
        write_file(path, o.str());
        // digests for cross-shard union
        std::ofstream d(path + ".dig", std::ios::binary | std::ios::trunc);
        for (auto v : nontrivial) d.write((const char *)&v, 8);
    }
};

// ------------------------------------------------------------------ runner plumbing
struct Args {
    std::string tier = "quick", replay, out = "evidence.json", failing = "failing.case", digests, digest_of;
    long dump_index = -1;
    uint64_t seed = 1;
    int shard = 0, nshards = 1;
    std::set<std::string> known;   // signatures listed in known_findings.txt for this property
    bool isolate = true;     // run a sample of the generated cases in a forked child (pristine process state)
    long isolate_n = 100;    // about this many per rapidcheck part and shard (a fork of an ASan process costs 20-70 ms here)
    double scale = 1.0;      // multiplies case counts (driver uses it for thorough tiers / mutant sweeps)
    bool quick() const { return tier == "quick"; }
    long n(long quick_n, long thorough_n) const {
        double v = (quick() ? quick_n : thorough_n) * scale / (double)nshards;
        return v < 1 ? 1 : (long)v;
    }
};
static inline Args parse_args(int argc, char **argv) {
    Args a;
    for (int i = 1; i < argc; i++) {
        std::string k = argv[i];
        auto nx = [&]() { return std::string(i + 1 < argc ? argv[++i] : ""); };
        if (k == "--tier") a.tier = nx();
        else if (k == "--seed") a.seed = strtoull(nx().c_str(), nullptr, 10);
        else if (k == "--replay") a.replay = nx();
        else if (k == "--out") a.out = nx();
        else if (k == "--failing") a.failing = nx();
        else if (k == "--shard") { std::string s = nx(); sscanf(s.c_str(), "%d/%d", &a.shard, &a.nshards); }
        else if (k == "--scale") a.scale = atof(nx().c_str());
        else if (k == "--no-isolate") a.isolate = false;
        else if (k == "--digests") a.digests = nx();
        else if (k == "--digest-of") a.digest_of = nx();
        else if (k == "--dump-index") a.dump_index = atol(nx().c_str());
        else if (k == "--isolate-n") a.isolate_n = atol(nx().c_str());
        else if (k == "--known") { std::string s = nx(), t; std::istringstream is(s); while (std::getline(is, t, ',')) if (!t.empty()) a.known.insert(t); }
    }
    if (a.seed == 0) a.seed = 1;
    if (getenv("VERIF_NO_ISOLATE")) a.isolate = false;
    if (a.tier == "thorough" && a.isolate_n == 100) a.isolate_n = 300;
#if defined(FLAVOUR_TSAN)
    a.isolate = false;   // ThreadSanitizer and fork do not mix well; the TSan runner creates its own threads per case
#endif
    return a;
}

// the case being executed, dumped by the sanitizer death callback
extern "C" void __sanitizer_set_death_callback(void (*)(void)) __attribute__((weak));
// A saved reproduction normally is one self-contained case. When a failure needs what EARLIER cases left behind in the process
// (state the code under test keeps outside its objects: a function-local static, a cache), the reproduction is the short run of
// cases that ends with the failing one; they are stored in one file, separated by CASE_SEP, and replayed in order in one process.
static const char *const CASE_SEP = "#==== next case (same process) ====";
static inline std::vector<std::string> split_cases(const std::string &text) {
    std::vector<std::string> out(1);
    std::istringstream in(text);
    std::string line;
    while (std::getline(in, line)) {
        if (line == CASE_SEP) { out.emplace_back(); continue; }
        out.back() += line; out.back() += "\n";
    }
    return out;
}
struct Current {
    static std::string &path() { static std::string p; return p; }
    static const Case *&cur() { static const Case *c = nullptr; return c; }
    static std::string &note() { static std::string n; return n; }
    static std::deque<Case> &prev() { static std::deque<Case> d; return d; }   // the cases evaluated in this process just before the current one
    static constexpr size_t PREV_MAX = 3;
    static std::string prev_text() {
        std::string t;
        for (auto &c : prev()) { t += c.to_text(); t += CASE_SEP; t += "\n"; }
        return t;
    }
    static void on_death() {
        if (cur() && !path().empty()) {
            std::string t = "# sanitizer/crash while executing this case\n" + cur()->to_text();
            FILE *f = fopen(path().c_str(), "w");
            if (f) { fwrite(t.data(), 1, t.size(), f); fclose(f); }
            if (!prev().empty()) {   // in case it only reproduces after its predecessors
                std::string h = "# sanitizer/crash while executing the last of these cases, run one after the other in one process\n" + prev_text() + cur()->to_text();
                f = fopen((path() + ".hist").c_str(), "w");
                if (f) { fwrite(h.data(), 1, h.size(), f); fclose(f); }
            }
            fprintf(stderr, "FAIL-CRASH case=%s\n", path().c_str());
        }
    }
    static void install(const std::string &p) { path() = p; if (__sanitizer_set_death_callback) __sanitizer_set_death_callback(on_death); }
};
struct CurrentScope {
    bool keep;
    CurrentScope(const Case &c, bool remember = true) : keep(remember) { Current::cur() = &c; }
    ~CurrentScope() {
        if (keep && Current::cur()) { Current::prev().push_back(*Current::cur()); if (Current::prev().size() > Current::PREV_MAX) Current::prev().pop_front(); }
        Current::cur() = nullptr;
    }
};
