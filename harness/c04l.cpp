// C04 (part 2) — the real os/linux/lltd_port.c derives what it supplies from the interface record without distortion.
// Linked WITHOUT the verification port: every lltd_port_* symbol here is the Linux platform layer's.
#include "rcx.hpp"

extern "C" {
void *lp_make_iface(const char *name, unsigned ifType, unsigned mediumType, unsigned mtu, unsigned linkSpeed, unsigned flags, const unsigned char mac[6], int sock, int ifclass);
void lp_free_iface(void *p);
unsigned lp_ifm_fdx(void);
unsigned lp_iff_loopback(void);
void lp_set_hostname(const char *h);
int lp_nsent(void);
size_t lp_sent_len(int i);
const unsigned char *lp_sent_data(int i);
void lp_clear_sent(void);
void lp_clear_addrs(void);
void lp_set_getifaddrs_fail(int f);
void lp_add_addr(const char *name, int v6, const unsigned char *bytes, int null_addr);
// the platform layer under test
int lltd_port_get_mtu(void *ctx, size_t *out);
int lltd_port_get_mac_address(void *ctx, void *out_mac);
uint32_t lltd_port_get_characteristics_flags(void *ctx);
int lltd_port_get_if_type(void *ctx, uint32_t *out);
int lltd_port_get_ipv4_address(void *ctx, uint32_t *out);
int lltd_port_get_ipv6_address(void *ctx, uint8_t out[16]);
int lltd_port_get_link_speed_100bps(void *ctx, uint32_t *out);
int lltd_port_get_wifi_mode(void *ctx, uint8_t *out);
}

// cfg[7]: interface class of the record (bond, bridge, ethernet, 802.11, VLAN)
// cfg: [0] ifType [1] MediumType [2] MTU [3] LinkSpeed [4] flags [5] mac [6] which addr entries exist (bit0 v4 own, bit1 v6 own, bit2 decoys first, bit3 entry with NULL addr, bit4 getifaddrs fails)
// blobs: name, ipv4(4), ipv6(16), hostname
static Verdict run(const Case &c) {
    Verdict v;
    uint32_t ifType = (uint32_t)c.c(0), medium = (uint32_t)c.c(1), mtu = (uint32_t)std::max<int64_t>(576, std::min<int64_t>(c.c(2, 1500), 1 << 20)),   /* the record's MTU is copied whatever it is: 65536 is the loopback device's default */ speed = (uint32_t)c.c(3), flags = (uint32_t)c.c(4);
    Mac mac = mac_from_u64((uint64_t)c.c(5, 0x020000000001LL));
    int sel = (int)c.c(6, 3);
    auto blob = [&](size_t i, size_t n) { Bytes b = i < c.blobs.size() ? c.blobs[i] : Bytes(); if (n) b.resize(n, 0); return b; };
    Bytes nameb = blob(0, 0), ip4 = blob(1, 4), ip6 = blob(2, 16), hostb = blob(3, 0);
    std::string name = "eth";
    for (auto b : nameb) name += (char)('a' + b % 26);
    std::string host;
    for (auto b : hostb) host += (char)('A' + b % 26);
    lp_set_hostname(host.c_str());
    lp_clear_addrs(); lp_clear_sent();
    const unsigned char other4[4] = {192, 0, 2, 99}, other6[16] = {0x20, 0x01, 0x0d, 0xb8, 9, 9, 9, 9, 9, 9, 9, 9, 9, 9, 9, 9};
    std::string decoy = name + "x";                    // a longer name with the same prefix must not match
    if (sel & 4) { lp_add_addr(decoy.c_str(), 0, other4, 0); lp_add_addr(decoy.c_str(), 1, other6, 0); }
    if (sel & 8) lp_add_addr(name.c_str(), 0, other4, 1);
    if (sel & 2) lp_add_addr(name.c_str(), 1, ip6.data(), 0);
    if (sel & 1) lp_add_addr(name.c_str(), 0, ip4.data(), 0);
    if (!(sel & 4)) lp_add_addr("lo", 0, other4, 0);
    lp_set_getifaddrs_fail(sel & 16 ? 1 : 0);
    void *ifc = lp_make_iface(name.c_str(), ifType, medium, mtu, speed, flags, mac.b, 7, (int)(c.c(7) % 5));
    // ---- getters against the record
    size_t gm = 0; uint8_t gmac[6] = {0}; uint32_t gt = 0, gs = 0, g4 = 0; uint8_t g6[16] = {0}; uint8_t wm = 0;
    if (lltd_port_get_mtu(ifc, &gm) != 0 || gm != mtu) v.fail(fmt("get_mtu gives %zu, record has %u", gm, mtu));
    if (v.ok && (lltd_port_get_mac_address(ifc, gmac) != 0 || memcmp(gmac, mac.b, 6))) v.fail(fmt("get_mac_address gives %s, record has %s", hex(gmac, 6).c_str(), mac.str().c_str()));
    if (v.ok && (lltd_port_get_if_type(ifc, &gt) != 0 || gt != ifType)) v.fail(fmt("get_if_type gives %u, record has %u", gt, ifType));
    if (v.ok && (lltd_port_get_link_speed_100bps(ifc, &gs) != 0 || gs != speed / 100)) v.fail(fmt("get_link_speed_100bps gives %u for %u bit/s, expected %u", gs, speed, speed / 100));
    uint32_t wantf = ((medium & lp_ifm_fdx()) ? 0x2000u : 0) | ((flags & lp_iff_loopback()) ? 0x0800u : 0);
    uint32_t gf = lltd_port_get_characteristics_flags(ifc);
    if (v.ok && gf != wantf) v.fail(fmt("characteristics flags 0x%04x for MediumType 0x%x flags 0x%x, expected 0x%04x", gf, medium, flags, wantf));
    bool have4 = (sel & 1) && !(sel & 16), have6 = (sel & 2) && !(sel & 16);
    int r4 = lltd_port_get_ipv4_address(ifc, &g4), r6 = lltd_port_get_ipv6_address(ifc, g6);
    if (v.ok && have4 && (r4 != 0 || memcmp(&g4, ip4.data(), 4))) v.fail(fmt("get_ipv4_address gives rc %d %s, interface %s has %s", r4, hex((uint8_t *)&g4, 4).c_str(), name.c_str(), hex(ip4).c_str()));
    if (v.ok && !have4 && r4 == 0) v.fail(fmt("get_ipv4_address succeeded (%s) although %s has no IPv4 entry", hex((uint8_t *)&g4, 4).c_str(), name.c_str()));
    if (v.ok && have6 && (r6 != 0 || memcmp(g6, ip6.data(), 16))) v.fail(fmt("get_ipv6_address gives rc %d %s, interface has %s", r6, hex(g6, 16).c_str(), hex(ip6).c_str()));
    if (v.ok && !have6 && r6 == 0) v.fail("get_ipv6_address succeeded although the interface has no IPv6 entry");
    if (v.ok && lltd_port_get_wifi_mode(ifc, &wm) == 0) v.fail("Linux port reports a Wi-Fi mode (it has no wireless support)");
    // ---- end to end: Discover -> Hello through this port
    if (v.ok) {
        Mac m = {{2, 0xAA, 0, 0, 0, 1}};
        Bytes f = mk_discover(m, m, 0, 1, 1, {});
        uint8_t *buf = (uint8_t *)calloc(1, mtu);
        memcpy(buf, f.data(), f.size());
        br_parse_frame(buf, ifc);
        free(buf);
        if (lp_nsent() != 1) v.fail(fmt("Discover through the Linux port produced %d frames", lp_nsent()));
        else {
            Bytes tx(lp_sent_data(0), lp_sent_data(0) + lp_sent_len(0));
            Hello h;
            std::string e = dec_hello(tx, h);
            auto be32 = [](uint32_t x) { return Bytes{(uint8_t)(x >> 24), (uint8_t)(x >> 16), (uint8_t)(x >> 8), (uint8_t)x}; };
            auto want = [&](uint8_t t, const Bytes &w, const char *n) {
                if (!v.ok) return;
                const Tlv *x = find_tlv(h, t);
                if (!x) { v.fail(fmt("Hello lacks property 0x%02x (%s)", t, n)); return; }
                if (x->val != w) v.fail(fmt("Hello property 0x%02x (%s) is %s, expected %s", t, n, hex(x->val).c_str(), hex(w).c_str()));
            };
            if (!e.empty()) v.fail("Hello malformed: " + e);
            else if (tx.size() > mtu) v.fail("Hello exceeds MTU");
            want(0x01, Bytes(mac.b, mac.b + 6), "hardware address");
            want(0x02, be32(wantf << 16), "characteristics");
            want(0x03, be32(ifType), "interface type");
            want(0x0C, be32(speed / 100), "link speed");
            want(0x07, have4 ? ip4 : Bytes(4, 0), "IPv4");
            want(0x08, have6 ? ip6 : Bytes(16, 0), "IPv6");
            want(0x0F, Bytes(host.begin(), host.begin() + std::min<size_t>(host.size(), 32)), "machine name");
            for (uint8_t t : {0x04, 0x05, 0x06, 0x09, 0x0D}) if (v.ok && find_tlv(h, t)) v.fail(fmt("wired Linux interface but Hello carries wireless property 0x%02x", t));
        }
        br_reset_iface_states();
    }
    lp_free_iface(ifc);
    lp_clear_addrs();
    auto db = [](uint32_t x) { std::set<uint8_t> s = {(uint8_t)x, (uint8_t)(x >> 8), (uint8_t)(x >> 16), (uint8_t)(x >> 24)}; return s.size() == 4; };
    v.nontrivial = (db(ifType) + db(speed / 100) + db(get32(ip4.data())) >= 2) || (medium & lp_ifm_fdx()) || (flags & lp_iff_loopback());
    if (medium & lp_ifm_fdx()) v.cls("full-duplex");
    if (flags & lp_iff_loopback()) v.cls("loopback");
    if (!have4) v.cls("no-ipv4");
    if (sel & 4) v.cls("decoy-interfaces-first");
    return v;
}

int main(int argc, char **argv) {
    Args a = parse_args(argc, argv);
    if (!a.replay.empty()) return replay_case(a, run);
    zygote_start(run);   // before any code under test runs in this process
    Current::install(a.failing);
    Evidence ev;
    ev.rule = "the real os/linux/lltd_port.c (libc calls redirected by objcopy: sendto/getifaddrs/freeifaddrs/nanosleep/gethostname/stdio) against generated network_interface_t records and generated interface address lists "
              "(own entries, decoy interface with a longer name, entry without address, failing getifaddrs): every getter vs the record, then one Discover -> Hello through that port decoded independently. "
              "non-trivial = >= 2 of ifType/speed/IPv4 with pairwise different bytes, or duplex/loopback set; distinct = digest of the record";
    std::vector<int64_t> d32 = {0, 1, 99, 100, 101, 0xFF, 0x100, 0xFFFF, 0x10000, 0x7FFFFFFF, 0x80000000LL, 0xFFFFFFFFLL, 0x01020304, 1000000000, 100000000};
    auto gen = rc::gen::exec([=] {
        Case c;
        auto g32 = [&] { return gx::bnd(d32, 0, 0xFFFFFFFFLL, 1, 1); };
        c.cfg = {*g32(), *gx::bnd({0, 0x10, 0x20, 0x30, 0x100000, 0xFFFFFFFFLL, 0xFFFFFFEFLL}, 0, 0xFFFFFFFFLL, 3, 1), *gx::pick({576, 1500, 9000, 9216, 577, 1280, 65535, 65536, 65537, 131072}), *g32(),
                 *gx::bnd({0, 0x8, 0x1, 0x1043, 0x1049, 0xFFFF, 0xFFF7}, 0, 0xFFFF, 3, 1), *gx::range<int64_t>(0, 0xFFFFFFFFFFFFLL), *gx::bnd({3, 3, 7, 1, 2, 0, 11, 19}, 0, 31, 4, 1), *gx::range<int64_t>(0, 4)};
        c.blobs = {*gx::bytes(0, 6), *gx::bytes(4, 4), *gx::bytes(16, 16), *gx::bytes(0, 40)};
        return c;
    });
    bool ok = run_cases(a, ev, "c04-linux-port", a.n(80000, 1000000), 100, gen, run);
    ev.write(a.out);
    return ok ? 0 : 1;
}
