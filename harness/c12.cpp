// C12 — Periodic Hellos are paced, purposeful and stop with the session.
#include "rcx.hpp"

struct MSess { bool complete; uint64_t last_ms; };
using Key = std::pair<uint64_t, uint16_t>;
static Key key_of(int k) { return {0x02AA00000000ULL + (uint64_t)(k % 10), (uint16_t)(k / 10 ? 0x0202 : 0)}; }   // 20 keys: 10 addresses x generations {0, 0x0202}

struct Mon {   // send_hello monitor
    bool in_tick = false;
    std::vector<uint64_t> at;        // virtual ms of every invocation
    std::string err;
    int calls_this_tick = 0;
};
static Mon *g_mon;
static void on_hello(void *) {
    Mon &m = *g_mon;
    uint64_t now = vp_now_ms();
    if (!m.in_tick && m.err.empty()) m.err = fmt("periodic Hello sent at t=%llu outside the periodic tick", (unsigned long long)now);
    if (!m.at.empty() && now - m.at.back() < 1000 && m.err.empty())
        m.err = fmt("periodic Hellos at t=%llu and t=%llu are only %llu ms apart", (unsigned long long)m.at.back(), (unsigned long long)now, (unsigned long long)(now - m.at.back()));
    m.at.push_back(now);
    m.calls_this_tick++;
}

// Model of the session table with the timing rules of the statement. To keep it exact, a tick is never taken while an
// expiry (60..62 s idle) or the 30 s inactivity rule (29..31 s) is inside its one-second granularity window: the
// interpreter nudges the clock past the window first (deterministically), so boundary values on both sides are still hit.
struct Model {
    std::map<Key, MSess> t;
    int64_t inactive_from = -1;    // ms of the last mapping_reset_inactive_timeout, -1 none pending
    int completed = 0, expired = 0, removed = 0, dropped30 = 0;
    uint64_t nudge(uint64_t now) const {
        for (int round = 0; round < 4; round++) {
            bool moved = false;
            for (auto &kv : t) { uint64_t idle = now - kv.second.last_ms; if (idle > 60000 && idle < 62000) { now = kv.second.last_ms + 62000; moved = true; } }
            if (inactive_from >= 0) { uint64_t e = now - (uint64_t)inactive_from; if (e > 29000 && e < 31000) { now = (uint64_t)inactive_from + 31000; moved = true; } }
            if (!moved) break;
        }
        return now;
    }
    void tick(uint64_t now) {
        if (inactive_from >= 0 && now - (uint64_t)inactive_from >= 31000) { if (!t.empty()) dropped30++; t.clear(); inactive_from = -1; }
        for (auto it = t.begin(); it != t.end();) { if (now - it->second.last_ms >= 62000) { it = t.erase(it); expired++; } else ++it; }
    }
    bool has_incomplete() const { for (auto &kv : t) if (!kv.second.complete) return true; return false; }
};

static void tick_and_judge(Verdict &v, Mon &mon, Model &md, size_t i, void *enumer, const std::function<void()> &do_tick, int &suppressed) {
    uint64_t now = md.nudge(vp_now_ms());
    vp_set_now_ms(now);
    md.tick(now);
    br_band b; br_band_get(br_aut_extra(enumer), &b);
    bool due = b.hello_ts > 0 && now >= b.hello_ts;
    bool recent = !mon.at.empty() && now - mon.at.back() < 1000;
    mon.in_tick = true; mon.calls_this_tick = 0;
    do_tick();
    mon.in_tick = false;
    if (!mon.err.empty()) { v.fail(fmt("step %zu: %s", i, mon.err.c_str())); return; }
    if (mon.calls_this_tick > 1) { v.fail(fmt("step %zu: %d periodic Hellos in one tick", i, mon.calls_this_tick)); return; }
    if (mon.calls_this_tick && md.t.empty()) { v.fail(fmt("step %zu: periodic Hello at t=%llu although the session table is empty", i, (unsigned long long)now)); return; }
    if (mon.calls_this_tick && !md.has_incomplete()) { v.fail(fmt("step %zu: periodic Hello at t=%llu although every one of the %zu sessions is complete", i, (unsigned long long)now, md.t.size())); return; }
    if (!mon.calls_this_tick && due && recent && md.has_incomplete()) suppressed++;
}

// ---------------- part 0: primitive operations
// ops: 1 tick | 2 advance(ms) | 3 add/refresh(key, seq) | 4 set_complete(key, flag)+update | 5 remove(key) | 6 clear | 7 hello-heard | 8 enum event(e)
//      9 band op(which) | 10 mapping input(x) | 11 mapping_reset_inactive_timeout | 12 mapping_on_charge | 13 start-enumeration (what the frame flow does on a Discover)
static Verdict run_prims(const Case &c) {
    Verdict v;
    World w;
    Mon mon; g_mon = &mon;
    vp_set_now_ms((uint64_t)std::max<int64_t>(1, c.c(1, 5000)));
    void *mapping = br_init_mapping(), *enumer = br_init_enumeration(), *table = br_st_create();
    void *band = br_aut_extra(enumer), *mst = br_aut_extra(mapping);
    uint64_t last_tx = 0;
    int user = 1;
    Model md;
    int suppressed = 0;
    for (size_t i = 0; i < c.ops.size() && v.ok; i++) {
        const Op &op = c.ops[i];
        Key k = key_of((int)((op.arg(0) % 20 + 20) % 20));
        Mac m = mac_from_u64(k.first);
        uint64_t now = vp_now_ms();
        switch (op.kind) {
            case 1: tick_and_judge(v, mon, md, i, enumer, [&] { br_tick(mapping, enumer, table, &user, &last_tx, on_hello, 1); }, suppressed); break;
            case 2: vp_set_now_ms(now + (uint64_t)std::max<int64_t>(0, std::min<int64_t>(op.arg(0), 120000))); break;
            case 3: {
                void *e = br_st_add(table, m.b, k.second, (uint16_t)op.arg(1));
                auto it = md.t.find(k);
                if (it != md.t.end()) it->second.last_ms = now;
                else if (md.t.size() < 16 && e) md.t[k] = MSess{false, now};
                break;
            }
            case 4: {
                void *e = br_st_find(table, m.b, k.second, 0);
                auto it = md.t.find(k);
                if (e && it != md.t.end()) { br_entry_set_complete(e, (int)(op.arg(1) & 1)); if ((op.arg(1) & 1) && !it->second.complete) md.completed++; it->second.complete = op.arg(1) & 1; }
                br_st_update(table);
                break;
            }
            case 5: br_st_remove(table, m.b, k.second); if (md.t.erase(k)) md.removed++; break;
            case 6: br_st_clear(table); if (!md.t.empty()) md.removed++; md.t.clear(); break;
            case 7: br_band_on_hello_received(band); br_switch_enumeration(enumer, 2); break;
            case 8: br_switch_enumeration(enumer, (int)(op.arg(0) & 3)); break;
            case 9:
                switch ((int)(op.arg(0) & 3)) { case 0: br_band_init_stats(band); break; case 1: br_band_choose_hello_time(band); break; case 2: br_band_do_hello(band); break; default: br_band_update_stats(band); }
                break;
            case 10: br_switch_mapping(mapping, (int)op.arg(0)); break;
            case 11: br_mapping_reset_inactive_timeout(mst); md.inactive_from = (int64_t)now; break;
            case 12: br_mapping_on_charge(mst); break;
            case 13:
                if (br_aut_state(enumer) == 0) { br_band_init_stats(band); br_band_choose_hello_time(band); }
                else { br_band b; br_band_get(band, &b); b.begun = 1; br_band_set(band, &b); }
                br_switch_enumeration(enumer, 3);
                break;
            default: break;
        }
        if (v.ok && !mon.err.empty()) v.fail(fmt("step %zu (op %d): %s", i, op.kind, mon.err.c_str()));
    }
    br_st_destroy(table); br_automata_destroy(enumer); br_automata_destroy(mapping);
    int events = md.completed + md.expired + md.removed + md.dropped30 + suppressed;
    v.nontrivial = mon.at.size() >= 2 && events >= 1;
    if (!mon.at.empty()) v.cls("hello-sent");
    if (md.completed) v.cls("session-completed");
    if (md.expired) v.cls("session-expired");
    if (md.removed) v.cls("session-removed");
    if (md.dropped30) v.cls("30s-drop");
    if (suppressed) v.cls("suppression-path");
    g_mon = nullptr;
    return v;
}

// ---------------- part 1: documented frame flow (Darwin glue) driven by frame histories
// ops: 1 discover(mapper, gen_sel, acking, xid, first listed station) | 7 discovers from n mappers | 2 hello flood(n) | 3 reset(bcast) | 4 charge | 5 other opcode(x) | 6 silence(ms, jump?) 
static Verdict run_flow(const Case &c) {
    Verdict v;
    World w;
    Mon mon; g_mon = &mon;
    IfCfg ic;
    int ifi = w.add_if(ic);
    vp_set_now_ms((uint64_t)std::max<int64_t>(1, c.c(1, 7000)));
    br_darwin d{};
    memcpy(d.mac, ic.mac.b, 6);
    d.ctx = w.ctx(ifi); d.send_hello = on_hello; d.user = &mon; d.call_parse_frame = 1; d.skip_trailing_tick = 1;
    if (br_darwin_init(&d) != 0) { v.fail("constructors failed"); g_mon = nullptr; return v; }
    // a second interface of the same daemon (own engines, own session table, own tick), served FIRST at every instant: it hears the
    // same mappers and is ticked in the same second; it is not judged, and nothing it does may show on the observed interface
    br_darwin d2{};
    IfCfg ic2 = ic; ic2.mac = mac_from_u64(mac_to_u64(ic.mac) ^ 0x0100);
    bool two = c.c(2) != 0;
    int if2 = two ? w.add_if(ic2) : -1;
    if (two) {
        memcpy(d2.mac, ic2.mac.b, 6);
        d2.ctx = w.ctx(if2); d2.send_hello = [](void *) {}; d2.user = &d2; d2.call_parse_frame = 1; d2.skip_trailing_tick = 1;
        if (br_darwin_init(&d2) != 0) { v.fail("constructors failed"); br_darwin_destroy(&d); g_mon = nullptr; return v; }
    }
    Model md;
    int suppressed = 0, full_refusals = 0;
    auto do_tick = [&](size_t i) { tick_and_judge(v, mon, md, i, d.enumeration, [&] { if (two) br_darwin_idle_tick(&d2); br_darwin_idle_tick(&d); }, suppressed); };
    auto rx = [&](size_t i, const Bytes &f, bool is_discover_01) {
        uint8_t *tf;
        if (two && f.size() >= 18 && (f[0] & 1)) {   // broadcasts (Discover, Hello, broadcast Reset) reach the other interface as well, and first
            uint8_t *b2 = w.stage(if2, f, CLEAN, &tf);
            br_darwin_rx(&d2, b2, f.size());
            free(tf);
            (void)drain_log();
        }
        uint8_t *b = w.stage(ifi, f, CLEAN, &tf);
        int prev = br_aut_state(d.mapping);
        br_darwin_rx(&d, b, f.size());
        free(tf);
        if (!mon.err.empty()) { v.fail(fmt("step %zu: %s", i, mon.err.c_str())); return; }
        // the frame handler itself transmits a Hello only while handling a Discover
        for (auto &e : drain_log()) if (e.kind == VE_SEND && e.data.size() >= 18 && e.data[17] == OP_HELLO && !is_discover_01) { v.fail(fmt("step %zu: the frame handler sent a Hello for a frame that is not a Discover", i)); return; }
        int after = br_aut_state(d.mapping);
        if (prev != 0 && after == 0 && !md.t.empty()) { md.t.clear(); md.removed++; }     // documented: mapping back to Quiescent clears the table
        md.inactive_from = (int64_t)vp_now_ms();
        do_tick(i);   // trailing tick of the frame flow
    };
    for (size_t i = 0; i < c.ops.size() && v.ok; i++) {
        const Op &op = c.ops[i];
        Mac mapper = mac_from_u64(0x02AA00000000ULL + (uint64_t)(((op.arg(0) % 24) + 24) % 24));
        uint64_t now = vp_now_ms();
        auto discover = [&](const Mac &mp, uint16_t gen, bool acking, uint16_t xid, int first, int over = 0) {
            // the acknowledged stations: any address may precede this station's own one in the list
            static const uint64_t firsts[] = {0x0600BB000001ULL, 0x000000000000ULL, 0xFFFFFFFFFFFFULL, 0x01005E000001ULL};
            std::vector<Mac> st = {mac_from_u64(firsts[first & 3]), acking ? ic.mac : mac_from_u64(0x0600BB000002ULL)};
            Key k = {mac_to_u64(mp), gen};
            uint64_t t = vp_now_ms();
            auto it = md.t.find(k);
            if (it != md.t.end()) { it->second.last_ms = t; if (acking && !it->second.complete) { it->second.complete = true; md.completed++; } }
            else if (md.t.size() < 16) { md.t[k] = MSess{acking, t}; if (acking) md.completed++; }
            else full_refusals++;
            rx(i, mk_discover(mp, mp, 0, xid, gen, st, over == 1 ? (long)st.size() + 1 : over == 2 ? 0xFFFF : -1), true);   // the count may exceed what the frame carries: what IS carried counts
        };
        switch (op.kind) {
            case 1: discover(mapper, op.arg(1) & 1 ? 0x0202 : 5, op.arg(2) & 1, (uint16_t)op.arg(3), (int)op.arg(4), (int)op.arg(5)); break;
            case 7:   // many mappers at once (a: how many, acknowledging, generation selector, first mapper): fills the table, then exceeds it
                for (int64_t n = 0; n < std::min<int64_t>(op.arg(0), 20) && v.ok; n++)
                    discover(mac_from_u64(0x02AA00000000ULL + (uint64_t)((op.arg(3) + n) % 24)), op.arg(2) & 1 ? 0x0202 : 5, op.arg(1) & 1, (uint16_t)(n + 1), 0);
                break;
            case 2: for (int64_t n = 0; n < std::min<int64_t>(op.arg(0), 40) && v.ok; n++) rx(i, mk_hello(mac_from_u64(0x0400F0000000ULL + (uint64_t)n), 0, 5, mapper, mapper), false); break;
            case 3: { if (!md.t.empty()) md.removed++; md.t.clear(); Mac dst = op.arg(1) & 1 ? BCAST : ic.mac; rx(i, mk_simple(dst, mapper, 0, OP_RESET, dst, mapper, 0), false); break; }
            case 4: rx(i, mk_simple(ic.mac, mapper, 0, OP_CHARGE, ic.mac, mapper, 0), false); break;
            case 5: { int x = (int)(op.arg(1) & 0xFF); if (x == 0 || x == 8) x = 4; rx(i, mk_simple(ic.mac, mapper, 0, (uint8_t)x, ic.mac, mapper, 1), false); break; }
            case 6: {
                uint64_t ms = (uint64_t)std::max<int64_t>(0, std::min<int64_t>(op.arg(0), 120000));
                if (op.arg(1) & 1) { vp_set_now_ms(now + ms); do_tick(i); }
                else for (uint64_t t = 100; t <= ms && v.ok; t += 100) { vp_set_now_ms(std::max(vp_now_ms(), now + t)); do_tick(i); }
                break;
            }
            default: break;
        }
    }
    br_darwin_destroy(&d);
    if (two) { br_darwin_destroy(&d2); v.cls("next-to-a-second-interface"); }
    int events = md.completed + md.expired + md.removed + md.dropped30 + suppressed;
    v.nontrivial = mon.at.size() >= 2 && events >= 1;
    if (!mon.at.empty()) v.cls("hello-sent");
    if (md.completed) v.cls("session-completed");
    if (md.expired) v.cls("session-expired");
    if (md.removed) v.cls("session-removed");
    if (md.dropped30) v.cls("30s-drop");
    if (suppressed) v.cls("suppression-path");
    if (full_refusals) v.cls("discover-while-the-table-is-full");
    g_mon = nullptr;
    return v;
}

static Verdict run(const Case &c) { return c.c(0) == 1 ? run_flow(c) : run_prims(c); }

int main(int argc, char **argv) {
    Args a = parse_args(argc, argv);
    if (!a.replay.empty()) return replay_case(a, run);
    zygote_start(run);   // before any code under test runs in this process
    Current::install(a.failing);
    Evidence ev;
    ev.rule = "the harness owns clock and schedule; send_hello is a monitor wired like darwin-main.c (last-transmit timestamp by pointer). (1) sequences <= 150 of primitive operations: tick, advance 0..120000 ms "
              "(boundary dictionary), session add/refresh/complete/remove/clear, Hello heard, enumeration events, band_* calls, mapping inputs, inactivity-timer reset, charge, start-enumeration. "
              "(2) the documented Darwin frame flow driven by frame histories (acking / non-acking Discovers of 4 mappers x 2 generations, Hello floods, Reset, Charge, other opcodes, silence in 100 ms ticks or one jump). "
              "At every invocation: inside a tick, model table (60 s expiry, 30 s inactivity drop) holds an incomplete session, >= 1000 ms since the previous one; none when the model table is empty. "
              "non-trivial = >= 2 periodic Hellos and >= 1 of session completed/expired/removed/30 s drop/suppression path; distinct = digest of the case";
    auto adv = [] { return gx::bnd({0, 1, 99, 100, 299, 300, 999, 1000, 1001, 29999, 30000, 60000, 61000, 120000}, 0, 120000, 3, 1); };
    auto gen0 = rc::gen::exec([=] {
        Case c; c.cfg = {0, *gx::bnd({1, 1000, 999999}, 1, 10000000, 1, 1)};
        int n = *gx::pick({20, 60, 150});
        c.ops = *rc::gen::resize(n, rc::gen::container<std::vector<Op>>(rc::gen::exec([=] {
            Op o;
            int k = *gx::range<int>(0, 39);
            int64_t key = *gx::range<int64_t>(0, 19);
            if (k <= 11) o.kind = 1;
            else if (k <= 19) { o.kind = 2; o.a = {*adv()}; }
            else if (k <= 23) { o.kind = 3; o.a = {key, *gx::range<int64_t>(0, 0xFFFF)}; }
            else if (k <= 25) { o.kind = 4; o.a = {key, *gx::pick({0, 1, 1})}; }
            else if (k == 26) { o.kind = 5; o.a = {key}; }
            else if (k == 27) { o.kind = *gx::chance(40) ? 6 : 5; o.a = {key}; }
            else if (k <= 29) o.kind = 7;
            else if (k <= 31) { o.kind = 8; o.a = {*gx::range<int64_t>(0, 3)}; }
            else if (k <= 33) { o.kind = 9; o.a = {*gx::range<int64_t>(0, 3)}; }
            else if (k == 34) { o.kind = 10; o.a = {*gx::pick({0, 2, 8, -1, -3, 9, 4})}; }
            else if (k == 35) o.kind = 11;
            else if (k == 36) o.kind = 12;
            else o.kind = 13;
            return o;
        })));
        return c;
    });
    bool ok = run_cases(a, ev, "c12-primitives", a.n(160000, 1000000), 200, gen0, run);
    if (ok) {
        auto gen1 = rc::gen::exec([=] {
            Case c; c.cfg = {1, *gx::bnd({1, 1000, 999999}, 1, 10000000, 1, 1), *gx::pick({0, 1, 1})};
            int n = *gx::range<int>(1, 30);
            c.ops = *rc::gen::resize(n, rc::gen::container<std::vector<Op>>(rc::gen::exec([=] {
                Op o;
                int k = *gx::range<int>(0, 19);
                int64_t mp = *gx::chance(85) ? *gx::range<int64_t>(0, 3) : *gx::range<int64_t>(0, 23);
                if (k <= 5) { o.kind = 1; o.a = {mp, *gx::pick({0, 1}), *gx::pick({0, 0, 1}), *gx::range<int64_t>(0, 3), *gx::pick({0, 0, 0, 1, 2, 3}), *gx::pick({0, 0, 0, 1, 2})}; }
                else if (k == 6) { o.kind = 7; o.a = {*gx::pick({3, 8, 15, 16, 17, 20}), *gx::pick({0, 1, 1}), *gx::pick({0, 1}), *gx::range<int64_t>(0, 23)}; }
                else if (k <= 8) { o.kind = 2; o.a = {*gx::bnd({1, 9, 10, 11, 40}, 1, 40, 1, 1), mp}; }
                else if (k == 9) { o.kind = 3; o.a = {mp, *gx::pick({0, 1})}; }
                else if (k == 10) { o.kind = 4; o.a = {mp}; }
                else if (k <= 12) { o.kind = 5; o.a = {mp, *gx::pick({2, 4, 6, 11, 3, 9, 0x40})}; }
                else { o.kind = 6; o.a = {*gx::bnd({0, 100, 900, 1000, 1100, 5000, 29000, 31000, 60000, 62000, 120000}, 0, 120000, 3, 1), *gx::pick({0, 0, 1})}; }
                return o;
            })));
            return c;
        });
        ok = run_cases(a, ev, "c12-frame-flow", a.n(48000, 300000), 100, gen1, run);
    }
    ev.write(a.out);
    return ok ? 0 : 1;
}
