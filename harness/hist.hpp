// Frame-history cases: configuration + list of steps that are interpreted against a small
// shadow model at run time, so that every sub-sequence of a case is again a valid case.
#pragma once
#include "rcx.hpp"

enum Kind {
    K_DISCOVER = 1,   // a: station, tos, gen, xid, bridged, nlisted, own_pos(-1 absent), addressing(0 broadcast, 1 unicast, 2 real destination own)
    K_RESET = 2,      // a: station, tos, rdst_bcast
    K_EMIT = 3,       // a: station(-1=active), seq, declared(-1=actual), path(-1 as the opener, 0 direct, 1 bridged) ; blob: 14-byte descriptors
    K_PROBE = 4,      // a: esrc_id, rsrc_id, is_probe, target(0 own,1 other,2 edst own/rdst other,3 edst other/rdst own)
    K_QUERY = 5,      // a: station(-1=active), seq
    K_QLT = 6,        // a: station(-1=active), seq, type, offset, tos
    K_HELLO = 7,      // a: station, tos, gen
    K_SHELL = 8,      // a: station, tos, opcode, seq, rdst_kind(0 own,1 bcast,2 other)
    K_RAW = 9,        // blob: raw frame bytes
    K_TICK = 10,
    K_ADVANCE = 11,   // a: ms
    K_SETICON = 12,   // blob: new icon bytes (harness-side change of the platform's icon)
    K_SETFRIENDLY = 13,
    K_FAULT = 14,     // a: what, arg   (C18)
    K_PBURST = 15,    // a: first id, count   (generation-time marker, expanded into K_PROBE ops)
    K_REPEAT = 19,    // a: n : the step that follows is carried out n times in a row (counters that wrap after 128 / 256 / 65536 occurrences)
    K_OTHERIF = 18    // a: what, station, x : a frame for ANOTHER interface of the same host (created on first use); see OtherIf
};

struct HCfg {
    int64_t part = 0;
    size_t mtu = 1500;
    int wifi = 0;
    uint64_t own = 0x020000000001ULL;
    uint64_t own_at_start = 0;
    uint64_t stbase = 0x0200AA000000ULL;   // station k: real = stbase + (k<<8) + 1 ; bridge = +2
    uint32_t fail = 0;                     // VF_/VG_ masks
    int untrunc = 0;
    Bytes hostname, ssid, icon, friendly, hwid;
    int icon_state = 1;                    // 0: getter fails, 1: icon bytes
    void to_case(Case &c) const {
        c.cfg = {part, (int64_t)mtu, wifi, (int64_t)own, (int64_t)stbase, (int64_t)fail, untrunc, icon_state};
        c.blobs = {hostname, ssid, icon, friendly, hwid};
    }
    static HCfg from_case(const Case &c) {
        HCfg h;
        h.part = c.c(0); h.mtu = (size_t)c.c(1, 1500); h.wifi = (int)c.c(2); h.own = (uint64_t)c.c(3, 0x020000000001LL);
        h.stbase = (uint64_t)c.c(4, 0x0200AA000000LL); h.fail = (uint32_t)c.c(5); h.untrunc = (int)c.c(6); h.icon_state = (int)c.c(7, 1);
        h.own_at_start = h.own;
        if (h.mtu < 64) h.mtu = 64;
        if (h.mtu > 65535) h.mtu = 65535;
        auto b = [&](size_t i) { return i < c.blobs.size() ? c.blobs[i] : Bytes(); };
        h.hostname = b(0); h.ssid = b(1); h.icon = b(2); h.friendly = b(3); h.hwid = b(4);
        return h;
    }
    Mac ownmac() const { return mac_from_u64(own); }
    // bits 48..51 of stbase: 1 + index of one station whose real address is a "special" one; bits 52..55: which
    // (all-zero, a group address, all-ones-but-one, an address that differs from another station's only in its first octet, the responder's own address)
    Mac st_real(int k) const {
        uint64_t base = stbase & 0xFFFFFFFFFFFFULL;
        int sp = (int)(stbase >> 48 & 0xF);
        if (sp && sp - 1 == k) {
            switch ((int)(stbase >> 52 & 0xF)) {
                case 0: return mac_from_u64(0);
                case 1: return mac_from_u64(0x01005E000001ULL);
                case 2: return mac_from_u64(0xFFFFFFFFFFFEULL);
                case 6: return mac_from_u64((base + ((uint64_t)(((k + 1) % 3) & 0xFFFF) << 8) + 1) ^ 0x020000000000ULL);   // another station's address with the locally-administered bit flipped
                case 5: return st_bridge((k + 1) % 3);   // this station IS the bridge through which another station's frames arrive (its address = that station's Ethernet source when bridged)
                case 4: return mac_from_u64(own_at_start ? own_at_start : own);   // frames that claim to come from the responder's own address (the one it had when the case began: a station keeps its address)
                default: return mac_from_u64((base + ((uint64_t)((k + 1) & 0xFFFF) << 8) + 1) ^ 0x800000000000ULL);
            }
        }
        return mac_from_u64(base + ((uint64_t)(k & 0xFFFF) << 8) + 1);
    }
    Mac st_bridge(int k) const { return mac_from_u64((stbase & 0xFFFFFFFFFFFFULL) + ((uint64_t)(k & 0xFFFF) << 8) + 2); }
    // a second interface of the same host (K_OTHERIF): other address, other MTU, other medium
    IfCfg other_ifcfg() const {
        IfCfg i = ifcfg();
        i.mac = mac_from_u64(own ^ 0x000100000000ULL);
        i.mtu = mtu > 1000 ? 576 + (mtu % 97) : 1500;
        i.wifi = !wifi;
        return i;
    }
    IfCfg ifcfg() const {
        IfCfg i;
        i.mtu = mtu; i.mac = ownmac(); i.wifi = wifi; i.ssid = ssid; i.ssid_untrunc = untrunc; i.fail = fail & 0xFFFF;
        i.flags = 0x2000; i.ipv4 = 0x0A0B0C0D; for (int k = 0; k < 16; k++) i.ipv6[k] = (uint8_t)(0xF0 + k);
        // attribute values derived from the own address so that histories see a spread of them, including 0 and all-ones
        static const uint32_t types[6] = {6, 71, 0, 0xFFFFFFFFu, 1, 6}, speeds[4] = {1000000, 0, 0xFFFFFFFFu, 540000};
        i.iftype = types[(own >> 4) % 6]; i.speed = speeds[(own >> 8) % 4]; i.wifi_mode = (uint8_t)((own >> 12) % 3 == 0 ? 0xFF : (own >> 12) & 3); i.rssi = (int8_t)(own >> 16);
        return i;
    }
    void apply_global(World &w) const {
        w.set_hostname(hostname, untrunc);
        if (icon_state) { if (icon.empty()) w.set_icon_present_empty(); else w.set_icon(icon); }
        w.set_friendly(friendly);
        w.set_hwid(hwid, untrunc);
        vp_global()->fail = fail & 0xFFFF0000u;
    }
};

// strict shadow of the mapper slot, used only to pick the sender of "-1 = active mapper" commands
struct Shadow {
    int active = -1;          // station index or -1
    bool bridged = false;     // how the active mapper's opener arrived
    void reset() { active = -1; bridged = false; }
};

struct Built {
    Bytes frame;
    bool is_frame = false;
    int station = -1;     // resolved sender station (commands)
    bool bridged = false;
};

// Another interface of the same host, served by the same core in the same process. It comes into being with the first K_OTHERIF step
// (cases without such steps are untouched) and receives ordinary traffic of its own; what it transmits is discarded. Nothing that
// happens there may show on the interface under observation - every oracle keeps judging that one as if it were alone.
struct OtherIf {
    int idxs[2] = {-1, -1};
    Mac macs[2];
    int steps = 0;
    void step(World &w, const HCfg &h, const Op &op) {
        int which = (int)(op.arg(3) & 1);   // up to two further interfaces, so that three instances can be alive
        if (idxs[which] < 0) { IfCfg c = h.other_ifcfg(); if (which) { c.mac = mac_from_u64(mac_to_u64(c.mac) ^ 0x000200000000ULL); c.mtu = 1280; } macs[which] = c.mac; idxs[which] = w.add_if(c); }
        int idx = idxs[which];
        Mac mac = macs[which];
        Mac s = h.st_real((int)(op.arg(1) & 3));
        uint16_t x = (uint16_t)op.arg(2, 1);
        Bytes f;
        switch ((int)op.arg(0)) {
            case 0: f = mk_simple(BCAST, s, 0, OP_RESET, BCAST, s, 0); break;
            case 1: f = mk_simple(BCAST, s, 1, OP_RESET, BCAST, s, 0); break;
            case 2: f = mk_discover(s, s, 0, 1, x, {}); break;
            case 3: f = mk_simple(mac, s, 0, OP_QUERY, mac, s, (uint16_t)(x | 1)); break;
            case 4: f = mk_qlt(mac, s, mac, s, (uint16_t)(x | 1), 0x0E, 0, 0); break;
            case 5: f = mk_simple(mac, mac_from_u64(0x0400CC000000ULL + x), 0, OP_PROBE, mac, mac_from_u64(0x0400DD000000ULL + (x % 3)), 0); break;
            case 6: f = mk_qlt(mac, s, mac, s, (uint16_t)(x | 1), 0x11, 0, 0); break;
            case 7: f = mk_discover(s, s, 1, 1, x, {mac}); break;
            default: { std::vector<EmitDesc> d = {{1, 0, mac, mac_from_u64(0x0400F0000001ULL)}}; f = mk_emit(mac, s, mac, s, (uint16_t)(x | 1), d); break; }
        }
        (void)w.deliver(idx, f);
        steps++;
    }
};

// K_REPEAT n followed by a step X becomes n copies of X (at most 600); a trailing or doubled K_REPEAT is dropped
static inline std::vector<Op> expand_repeats(const std::vector<Op> &in) {
    std::vector<Op> out;
    for (size_t i = 0; i < in.size(); i++) {
        if (in[i].kind != K_REPEAT) { out.push_back(in[i]); continue; }
        if (i + 1 >= in.size() || in[i + 1].kind == K_REPEAT) continue;
        int64_t n = std::max<int64_t>(1, std::min<int64_t>(in[i].arg(0), 600));
        for (int64_t k = 0; k < n; k++) out.push_back(in[i + 1]);
        i++;
    }
    return out;
}

// resolve -1 to the active mapper (or station 0 when none)
static inline int resolve_station(const Shadow &sh, int64_t s) { return s >= 0 ? (int)s : (sh.active >= 0 ? sh.active : 0); }

static inline Built build_frame(const HCfg &h, const Op &op, const Shadow &sh) {
    Built b;
    Mac own = h.ownmac();
    auto sender = [&](int64_t s, bool br, Mac &esrc, Mac &rsrc) {
        int k = resolve_station(sh, s);
        b.station = k;
        b.bridged = br;
        rsrc = h.st_real(k);
        esrc = br ? h.st_bridge(k) : rsrc;
    };
    Mac esrc, rsrc;
    switch (op.kind) {
        case K_DISCOVER: {
            sender(op.arg(0), op.arg(4) != 0, esrc, rsrc);
            int n = (int)std::min<int64_t>(op.arg(5), (int64_t)((h.mtu - 36) / 6));
            if (n < 0) n = 0;
            std::vector<Mac> st;
            for (int i = 0; i < n; i++) st.push_back(mac_from_u64(0x0600BB000000ULL + (uint64_t)i));
            if (op.arg(6, -1) >= 0 && n > 0) st[(size_t)(op.arg(6) % n)] = own;
            b.frame = mk_discover(esrc, rsrc, (uint8_t)op.arg(1), (uint16_t)op.arg(3), (uint16_t)op.arg(2), st);
            // a[7]: how the Discover is addressed - 0 broadcast at both levels (the norm), 1 to this station at both levels, 2 Ethernet broadcast but
            // real destination this station. All three are addressed to this station; the Hello that answers is broadcast regardless.
            if (op.arg(7) == 1) { memcpy(&b.frame[0], own.b, 6); memcpy(&b.frame[18], own.b, 6); }
            else if (op.arg(7) == 2) memcpy(&b.frame[18], own.b, 6);
            b.is_frame = true;
            break;
        }
        case K_RESET:
            sender(op.arg(0), false, esrc, rsrc);
            b.frame = mk_simple(op.arg(2) ? BCAST : own, esrc, (uint8_t)op.arg(1), OP_RESET, op.arg(2) ? BCAST : own, rsrc, 0);
            b.is_frame = true;
            break;
        case K_EMIT: {
            // a[3]: the path this Emit arrives on: -1 (default) as the session opener did, 0 directly, 1 through a bridge
            sender(op.arg(0), op.arg(3, -1) >= 0 ? op.arg(3) != 0 : (op.arg(0) < 0 ? sh.bridged : false), esrc, rsrc);
            std::vector<EmitDesc> d;
            size_t cap = (h.mtu - 34) / 14;
            for (size_t i = 0; i + 14 <= op.blob.size() && d.size() < cap; i += 14) {
                EmitDesc e; e.kind = op.blob[i]; e.pause = op.blob[i + 1];
                e.src = getmac(&op.blob[i + 2]); e.dst = getmac(&op.blob[i + 8]);
                if (mac_to_u64(e.src) == 0x0E0000000000ULL) e.src = own;    // sentinel: the responder's own address
                if (mac_to_u64(e.dst) == 0x0E0000000000ULL) e.dst = own;
                d.push_back(e);
            }
            b.frame = mk_emit(own, esrc, own, rsrc, (uint16_t)op.arg(1), d, op.arg(2, -1));
            b.is_frame = true;
            break;
        }
        case K_PROBE: {
            // identities 0xFFFFF0..3 stand for addresses with a special look: the responder's own, all-zero, all-ones, the first station's
            auto special = [&](int64_t id, uint64_t base) -> Mac {
                switch (id & 0xFFFFFF) {
                    case 0xFFFFF0: return own;
                    case 0xFFFFF1: return ZEROMAC;
                    case 0xFFFFF2: return BCAST;
                    case 0xFFFFF3: return h.st_real(0);
                    default:
                        if ((id & 0xFFFF00) == 0xFFFE00) return mac_from_u64((base + (uint64_t)(id & 0xFF)) ^ 0xFFFF00000000ULL);   // the twin of identity (id & 0xFF): same last four octets, other first two
                        return mac_from_u64(base + (uint64_t)(id & 0xFFFFFF));
                }
            };
            Mac e = special(op.arg(0), 0x0400CC000000ULL);
            Mac r = special(op.arg(1), 0x0400DD000000ULL);
            Mac other = mac_from_u64(0x0400EE000001ULL);
            int t = (int)op.arg(3);
            Mac edst = (t == 0 || t == 2) ? own : other;
            Mac rdst = (t == 0 || t == 3) ? own : other;
            b.frame = mk_simple(edst, e, 0, op.arg(2) ? OP_PROBE : OP_TRAIN, rdst, r, 0);
            b.is_frame = true;
            break;
        }
        case K_QUERY:
            sender(op.arg(0), op.arg(2, -1) >= 0 ? op.arg(2) != 0 : (op.arg(0) < 0 ? sh.bridged : false), esrc, rsrc);   // a[2]: path override as for K_EMIT
            b.frame = mk_simple(own, esrc, 0, OP_QUERY, own, rsrc, (uint16_t)op.arg(1));
            b.is_frame = true;
            break;
        case K_QLT:
            sender(op.arg(0), op.arg(0) < 0 ? sh.bridged : false, esrc, rsrc);
            b.frame = mk_qlt(own, esrc, own, rsrc, (uint16_t)op.arg(1), (uint8_t)op.arg(2), (uint16_t)op.arg(3), (uint8_t)op.arg(4));
            b.is_frame = true;
            break;
        case K_HELLO:
            sender(op.arg(0), false, esrc, rsrc);
            b.frame = mk_hello(rsrc, (uint8_t)op.arg(1), (uint16_t)op.arg(2), h.st_real(0), h.st_real(0));
            b.is_frame = true;
            break;
        case K_SHELL: {
            sender(op.arg(0), false, esrc, rsrc);
            int rk = (int)op.arg(4);
            Mac rdst = rk == 0 ? own : rk == 1 ? BCAST : mac_from_u64(0x0400EE000001ULL);
            b.frame = mk_simple(rdst, esrc, (uint8_t)op.arg(1), (uint8_t)op.arg(2), rdst, rsrc, (uint16_t)op.arg(3));
            b.is_frame = true;
            break;
        }
        case K_RAW:
            b.frame = op.blob;
            b.is_frame = true;
            break;
        default: break;
    }
    return b;
}

// strict shadow update after a frame built from op was delivered (spec behaviour under C05's domain restriction)
static inline void shadow_update(Shadow &sh, const Op &op, const Built &b) {
    switch (op.kind) {
        case K_DISCOVER:
            if ((op.arg(1) == 0 || op.arg(1) == 1) && sh.active < 0) { sh.active = b.station; sh.bridged = b.bridged; }
            break;
        case K_RESET:
            if (op.arg(1) == 0 || op.arg(1) == 1) sh.reset();
            break;
        case K_EMIT: case K_QUERY:
            if (sh.active < 0) { sh.active = b.station; sh.bridged = b.bridged; }
            break;
        case K_QLT:
            if ((op.arg(4) == 0 || op.arg(4) == 1) && op.arg(1) != 0 && sh.active < 0) { sh.active = b.station; sh.bridged = b.bridged; }
            break;
        default: break;
    }
}

// ------------------------------------------------------------------ generators
struct HistWeights {
    int discover = 6, reset = 2, emit = 3, probe = 5, query = 3, qlt = 3, hello = 2, shell = 2, raw = 0,
        tick = 0, advance = 1, seticon = 0, pburst = 0, otherif = 0, repeat = 0;
    int nstations = 3;
    bool commands_from_active_only = true;   // C05 domain restriction
    bool odd_tos = true;                     // Discover/Reset/QLT with ToS outside {0,1}
    int max_emit = 4;
    int probe_ids = 6;                       // distinct observation identities
};

namespace hg {
using namespace gx;
inline rc::Gen<int64_t> tos_gen(bool odd) {
    if (!odd) return pick({0, 0, 0, 1});
    return rc::gen::weightedOneOf<int64_t>({{8, pick({0, 0, 0, 1})}, {1, pick({2, 3, 0x7F, 0xFF})}, {1, range<int64_t>(0, 255)}});
}
inline rc::Gen<int64_t> seq_gen() { return bnd({1, 2, 0x00FF, 0xFF00, 0xFFFF}, 1, 0xFFFF, 1, 1); }
inline rc::Gen<int64_t> seq0_gen() { return bnd({0, 1, 2, 0x00FF, 0x0100, 0x8000, 0xFF00, 0xFFFF}, 0, 0xFFFF, 1, 1); }   // requests that are answered whatever their sequence number
inline rc::Gen<int64_t> gen_gen() { return bnd({0, 1, 0x00FF, 0xFF00, 0xFFFF, 0x1234, 0x3412}, 0, 0xFFFF, 2, 1); }
inline rc::Gen<Bytes> emit_descs(int maxn) {
    // now and then an Emit that carries no descriptor at all (nothing to do for it; whatever follows must work as before)
    return rc::gen::mapcat(rc::gen::map(rc::gen::pair(range<int>(0, 15), range<int>(1, maxn)), [](std::pair<int, int> p) { return p.first == 0 ? 0 : p.second; }), [](int n) {
        return rc::gen::map(rc::gen::container<std::vector<Bytes>>((size_t)n, rc::gen::exec([] {
            Bytes d(14);
            d[0] = (uint8_t)*pick({0, 1});
            d[1] = (uint8_t)*bnd({0, 1, 255}, 0, 255, 1, 1);
            // sources / destinations: a few ordinary stations, plus broadcast, all-zero and the responder's own address (sentinel 0e:00:00:00:00:00,
            // replaced by the builder); pause values from the whole byte range incl. >= 128
            auto addr = [](uint64_t base) -> Mac {
                int k = *range<int>(0, 11);
                if (k == 9) return BCAST;
                if (k == 10) return ZEROMAC;
                if (k == 11) return mac_from_u64(0x0E0000000000ULL);
                return mac_from_u64(base + (uint64_t)(k % 6));
            };
            Mac sm = addr(0x0400CC000000ULL), tm = addr(0x0400F0000000ULL);
            memcpy(&d[2], sm.b, 6); memcpy(&d[8], tm.b, 6);
            return d;
        })), [](std::vector<Bytes> v) {
            Bytes all;
            for (size_t i = 0; i < v.size(); i++) {
                // every third descriptor (by content hash) repeats the previous path with the OTHER kind: adjacent descriptors that differ only in kind
                if (i > 0 && (v[i][1] % 3) == 0) { uint8_t kind = (uint8_t)(all[all.size() - 14] ^ 1), pause = v[i][1]; Bytes d(all.end() - 14, all.end()); d[0] = kind; d[1] = pause; v[i] = d; }
                all.insert(all.end(), v[i].begin(), v[i].end());
            }
            return all;
        });
    });
}
inline rc::Gen<Op> op_gen(const HistWeights &w) {
    using G = rc::Gen<Op>;
    std::vector<std::pair<size_t, G>> alts;
    auto st = [w] { return range<int64_t>(0, w.nstations - 1); };
    auto cmd_st = [w, st]() -> rc::Gen<int64_t> { return w.commands_from_active_only ? rc::gen::just<int64_t>(-1) : rc::gen::oneOf(rc::gen::just<int64_t>(-1), st()); };
    if (w.discover) alts.push_back({(size_t)w.discover, rc::gen::exec([=] {
        Op o; o.kind = K_DISCOVER;
        int64_t n = *bnd({0, 1, 2, 3}, 0, 8, 2, 1);
        o.a = {*st(), *tos_gen(w.odd_tos), *gen_gen(), *bnd({0, 1, 0xFFFF}, 0, 0xFFFF, 1, 1), *pick({0, 0, 1}), n, *range<int64_t>(-1, 7), *pick({0, 0, 0, 0, 0, 0, 0, 0, 1, 2})};
        return o; })});
    if (w.reset) alts.push_back({(size_t)w.reset, rc::gen::exec([=] {
        Op o; o.kind = K_RESET; o.a = {*st(), *tos_gen(w.odd_tos), *pick({0, 1})}; return o; })});
    if (w.emit) alts.push_back({(size_t)w.emit, rc::gen::exec([=] {
        Op o; o.kind = K_EMIT; o.a = {*cmd_st(), *seq0_gen(), -1, *pick({-1, -1, -1, -1, 0, 1})}; o.blob = *emit_descs(w.max_emit); return o; })});
    if (w.probe) alts.push_back({(size_t)w.probe, rc::gen::exec([=] {
        Op o; o.kind = K_PROBE;
        o.a = {*range<int64_t>(0, w.probe_ids - 1), *range<int64_t>(0, 2), *pick({0, 1}), *pick({0, 0, 0, 0, 1, 2, 3})};
        if (*chance(6)) o.a[1] = *pick({0xFFFFF0, 0xFFFFF0, 0xFFFFF1, 0xFFFFF2, 0xFFFFF3});   // a probe that claims the responder itself, nobody, everybody or the mapper as its origin
        else if (*chance(3)) o.a[0] = *pick({0xFFFFF0, 0xFFFFF1, 0xFFFFF3});
        else if (*chance(5)) { if (*chance(50)) o.a[0] = 0xFFFE00 + o.a[0] % 256; else o.a[1] = 0xFFFE00 + o.a[1] % 256; }   // an address that differs from an ordinary one in its first two octets only
        return o; })});
    if (w.query) alts.push_back({(size_t)w.query, rc::gen::exec([=] {
        Op o; o.kind = K_QUERY; o.a = {*cmd_st(), *seq0_gen(), *pick({-1, -1, -1, -1, 0, 1})}; return o; })});
    if (w.qlt) alts.push_back({(size_t)w.qlt, rc::gen::exec([=] {
        Op o; o.kind = K_QLT;
        o.a = {*cmd_st(), *bnd({0, 1, 0xFFFF}, 0, 0xFFFF, 1, 2), *chance(12) ? *range<int64_t>(0, 0x20) : *pick({0x0E, 0x0E, 0x11, 0x13, 0x12, 0x00, 0xFF}),
               *bnd({0, 1, 541, 542, 543, 1000, 0xFFFF}, 0, 3000, 1, 1), *pick({0, 0, 0, 1})};
        return o; })});
    if (w.hello) alts.push_back({(size_t)w.hello, rc::gen::exec([=] {
        Op o; o.kind = K_HELLO; o.a = {*st(), *pick({0, 1}), *gen_gen()}; return o; })});
    if (w.shell) alts.push_back({(size_t)w.shell, rc::gen::exec([=] {
        Op o; o.kind = K_SHELL;
        // never a session command of the discovery services from a stranger: opcode drawn from the non-command set
        // for ToS 0/1; any opcode for other ToS
        int64_t tos = *rc::gen::weightedOneOf<int64_t>({{2, pick({0, 1})}, {3, pick({2, 3, 0x7F, 0xFF})}, {1, range<int64_t>(2, 255)}});
        // (under quick discovery, ToS 1, Emit/Train/Probe/Query are not commands at all - the service does not have them - so they may come from anybody)
        int64_t opc = tos == 1 ? *pick({1, 5, 7, 9, 10, 12, 13, 0x40, 0xFF, 2, 3, 4, 6, 6}) : (tos <= 1) ? *pick({1, 5, 7, 9, 10, 12, 13, 0x40, 0xFF}) : *rc::gen::weightedOneOf<int64_t>({{3, range<int64_t>(0, 12)}, {1, range<int64_t>(0, 255)}});
        o.a = {*st(), tos, opc, *pick({0, 1, 0xFFFF}), *pick({0, 1, 2})};
        return o; })});
    if (w.raw) alts.push_back({(size_t)w.raw, rc::gen::exec([=] { Op o; o.kind = K_RAW; o.blob = *bytes(0, 80); return o; })});
    if (w.tick) alts.push_back({(size_t)w.tick, rc::gen::exec([=] { Op o; o.kind = K_TICK; return o; })});
    if (w.advance) alts.push_back({(size_t)w.advance, rc::gen::exec([=] {
        Op o; o.kind = K_ADVANCE; o.a = {*bnd({0, 1, 999, 1000, 1001, 30000, 61000}, 0, 120000, 1, 1)}; return o; })});
    if (w.pburst) alts.push_back({(size_t)w.pburst, rc::gen::exec([=] {
        // marker op: expanded by expand_bursts() into `count` K_PROBE ops with consecutive identities (enough to cross the per-frame capacity)
        Op o; o.kind = K_PBURST; o.a = {*range<int64_t>(100, 5000), *bnd({26, 27, 28, 29, 30, 72, 73, 74, 75}, 1, 120, 2, 1)}; return o; })});
    if (w.otherif) alts.push_back({(size_t)w.otherif, rc::gen::exec([=] {
        Op o; o.kind = K_OTHERIF; o.a = {*range<int64_t>(0, 8), *range<int64_t>(0, 2), *pick({1, 2, 3, 0x0101, 0x7FFF}), *pick({0, 0, 1})}; return o; })});
    if (w.repeat) alts.push_back({(size_t)w.repeat, rc::gen::exec([=] {
        Op o; o.kind = K_REPEAT; o.a = {*pick({2, 3, 127, 128, 129, 255, 256, 257})}; return o; })});
    if (w.seticon) alts.push_back({(size_t)w.seticon, rc::gen::exec([=] { Op o; o.kind = K_SETICON; o.blob = *bytes(1, 700); return o; })});
    return gx::weighted<Op>(alts);
}
inline rc::Gen<int64_t> mtu_gen() {
    // capacities are floor((MTU-34)/14), floor((MTU-34)/20), MTU-34: cover many residues, with weight on small MTUs where the capacities are cheap to reach
    return rc::gen::weightedOneOf<int64_t>({{4, pick({576, 576, 577, 1500, 1500, 1514, 9000, 9216, 1492, 1280, 592, 594, 2304, 4352, 9212, 9214})}, {3, range<int64_t>(576, 700)}, {1, range<int64_t>(576, 9216)}});
}
inline rc::Gen<HCfg> cfg_gen() {
    return rc::gen::exec([] {
        HCfg h;
        h.mtu = (size_t)*mtu_gen();
        h.wifi = (int)*pick({0, 0, 1});
        h.own = 0x020000000000ULL | (uint64_t)*range<int64_t>(1, 0xFFFFFF);
        h.stbase = 0x0200AA000000ULL;
        if (*chance(8)) h.stbase |= ((uint64_t)*range<int64_t>(1, 3) << 48) | ((uint64_t)*range<int64_t>(0, 6) << 52);   // one station with an unusual real address
        h.untrunc = (int)*pick({0, 0, 0, 1});
        h.hostname = *bytes(0, 40);
        h.ssid = *bytes(0, 40);
        h.icon = *bytes(0, 1400);
        h.friendly = *bytes(0, 80);
        if (*chance(6) && h.friendly.size() >= 4) { static const std::vector<Bytes> pre = {{0xFF, 0xFE}, {0xFE, 0xFF}, {0xEF, 0xBB, 0xBF}, {0x00, 0x00}}; const Bytes &p = pre[(size_t)*range<int>(0, 3)]; std::copy(p.begin(), p.end(), h.friendly.begin()); }   // starts like a byte-order mark / a NUL unit
        Bytes hw = *bytes(0, *gx::pick({32, 32, 32, 36, 40}));     // UCS-2LE units without NUL unit; platforms may hold more than the 32 units the core asks for (a 36-character UUID)
        h.hwid.clear();
        for (auto b : hw) {   // never U+0000; includes units whose low byte is zero (U+0100 ...) next to ASCII units
            if (b % 4 == 2) { h.hwid.push_back(0x00); h.hwid.push_back((uint8_t)(1 + b % 0x4E)); }
            else { h.hwid.push_back(b ? b : 1); h.hwid.push_back((uint8_t)(b % 4 == 3 ? 0x30 : 0x00)); }
        }
        h.icon_state = (int)*pick({1, 1, 1, 0});
        return h;
    });
}
inline std::vector<Op> expand_bursts(std::vector<Op> v) {
    std::vector<Op> r;
    for (auto &o : v) {
        if (o.kind != K_PBURST) { r.push_back(o); continue; }
        for (int64_t k = 0; k < o.arg(1); k++) { Op p; p.kind = K_PROBE; p.a = {o.arg(0) + k, (o.arg(0) + k) % 3, (o.arg(0) + k) & 1, 0}; r.push_back(p); }
    }
    return r;
}
inline rc::Gen<std::vector<Op>> ops_gen(const HistWeights &w, int lo, int hi) {
    if (w.pburst) return rc::gen::map(rc::gen::mapcat(range<int>(lo, hi), [w](int n) { return rc::gen::resize(n, rc::gen::container<std::vector<Op>>(op_gen(w))); }), expand_bursts);
    // variable-length container so that rapidcheck can shrink by dropping steps; length in [0, n], n in [lo, hi]
    return rc::gen::mapcat(range<int>(lo, hi), [w](int n) { return rc::gen::resize(n, rc::gen::container<std::vector<Op>>(op_gen(w))); });
}
inline rc::Gen<Case> hist_case(const HistWeights &w, int lo, int hi, int64_t part = 0) {
    return rc::gen::exec([=] {
        HCfg h = *cfg_gen();
        h.part = part;
        Case c;
        h.to_case(c);
        c.ops = *ops_gen(w, lo, hi);
        return c;
    });
}
}  // namespace hg

// per-request transmit budget (Oracle B of C02): the allowed multiset of opcodes for the frame just handled
struct Budget { int hello = 0, probes = 0, ack = 0, qresp = 0, qlt = 0; };
static inline Budget budget_for(const Bytes &f, size_t mtu) {
    Budget b;
    Hdr h;
    if (!dec_hdr(f, h)) return b;
    if (h.op == OP_DISCOVER && (h.tos == 0 || h.tos == 1)) b.hello = 1;
    else if (h.op == OP_EMIT && h.tos == 0 && f.size() >= 34) {
        size_t declared = get16(f.data() + 32), carried = (std::min(f.size(), mtu) - 34) / 14;
        b.probes = (int)std::min(declared, carried);
        b.ack = 1;
    } else if (h.op == OP_QUERY && h.tos == 0) b.qresp = 1;
    else if (h.op == OP_QLT && (h.tos == 0 || h.tos == 1)) b.qlt = 1;
    return b;
}
static inline std::string check_budget(const std::vector<Ev> &evs, const Budget &b) {
    int hello = 0, probes = 0, ack = 0, qresp = 0, qlt = 0, other = 0;
    for (auto &e : evs) {
        if (e.kind == VE_SLEEP) continue;
        uint8_t op = e.data.size() >= 18 ? e.data[17] : 0xEE;
        switch (op) {
            case OP_HELLO: hello++; break;
            case OP_PROBE: case OP_TRAIN: probes++; break;
            case OP_ACK: ack++; break;
            case OP_QUERYRESP: qresp++; break;
            case OP_QLTRESP: qlt++; break;
            default: other++;
        }
    }
    if (hello > b.hello) return fmt("%d Hello(s) sent where at most %d is solicited", hello, b.hello);
    if (probes > b.probes) return fmt("%d Probe/Train sent where at most %d is solicited", probes, b.probes);
    if (ack > b.ack) return fmt("%d ACK(s) sent where at most %d is solicited", ack, b.ack);
    if (qresp > b.qresp) return fmt("%d QueryResp sent where at most %d is solicited", qresp, b.qresp);
    if (qlt > b.qlt) return fmt("%d QueryLargeTlvResp sent where at most %d is solicited", qlt, b.qlt);
    if (other) return fmt("%d frame(s) with an opcode no request solicits", other);
    return "";
}

// ------------------------------------------------------------------ C05 reference model
// Non-deterministic where the statement is silent: set of stations that may currently be the
// active mapper (-1 = "none").
struct MapperModel {
    std::set<int> possible{-1};
    // 1: must be answered, 0: must be silent, 2: statement does not determine it
    int expect_discover(int s) const {
        bool subset = true, disjoint = true;
        for (int p : possible) { if (p == -1 || p == s) disjoint = false; else subset = false; }
        return subset ? 1 : disjoint ? 0 : 2;
    }
    void observe_discover(int s, bool answered) {
        if (answered) possible = {s};
        else { possible.erase(-1); possible.erase(s); }
    }
    void reset() { possible = {-1}; }
    void command(int s) { if (possible.count(-1)) possible.insert(s); }   // a command may open a session
    // apply the effect of a delivered op (Discover handled by caller through observe_discover)
    void apply(const Op &op, const Built &b) {
        switch (op.kind) {
            case K_RESET: if (op.arg(1) == 0 || op.arg(1) == 1) reset(); break;
            case K_EMIT: case K_QUERY: command(b.station); break;
            case K_QLT: if ((op.arg(4) == 0 || op.arg(4) == 1) && op.arg(1) != 0) command(b.station); break;
            default: break;
        }
    }
};

// what a delivered frame means for the mapper slot, judged from its bytes (ToS, opcode, sequence number)
enum Sem { SEM_NONE, SEM_DISCOVER, SEM_RESET, SEM_COMMAND };
static inline Sem frame_sem(const Bytes &f) {
    if (f.size() < HDR) return SEM_NONE;
    uint8_t tos = f[15], op = f[17];
    if (tos > 1) return SEM_NONE;
    if (op == OP_DISCOVER) return SEM_DISCOVER;
    if (op == OP_RESET) return SEM_RESET;
    if (tos == 0 && (op == OP_EMIT || op == OP_QUERY)) return SEM_COMMAND;
    if (op == OP_QLT && get16(f.data() + 30) != 0) return SEM_COMMAND;
    return SEM_NONE;
}
static inline void shadow_update_sem(Shadow &sh, Sem s, const Built &b) {
    if (s == SEM_RESET) sh.reset();
    else if ((s == SEM_DISCOVER || s == SEM_COMMAND) && sh.active < 0) { sh.active = b.station; sh.bridged = b.bridged; }
}
