// rapidcheck generator for templated / mutated / truncated / raw frames (shared by C01, C02, C17 ...)
#pragma once
#include "rcx.hpp"
#include "c01_exec.hpp"

inline rc::Gen<FrameT> frame_t_gen() {
    return rc::gen::exec([] {
        FrameT t;
        t.tmpl = (int)*gx::weighted<int64_t>({{4, rc::gen::just<int64_t>(0)}, {4, rc::gen::just<int64_t>(1)}, {2, rc::gen::just<int64_t>(2)},
                                          {2, rc::gen::just<int64_t>(3)}, {3, rc::gen::just<int64_t>(4)}, {1, rc::gen::just<int64_t>(5)},
                                          {1, rc::gen::just<int64_t>(6)}, {3, rc::gen::just<int64_t>(7)}, {2, rc::gen::just<int64_t>(8)}});
        t.tos = (int)*gx::weighted<int64_t>({{6, gx::pick({0, 0, 1})}, {1, gx::pick({2, 3, 0xFF})}, {1, gx::range<int64_t>(0, 255)}});
        t.opcode = (int)*gx::weighted<int64_t>({{4, gx::range<int64_t>(0, 12)}, {1, gx::range<int64_t>(0, 255)}});
        t.st = (int)*gx::range<int64_t>(0, 3);
        t.bridged = (int)*gx::pick({0, 0, 1});
        t.dst = (int)*gx::pick({0, 0, 0, 1, 2});
        t.seq = (int)*gx::bnd({0, 1, 0xFFFF}, 0, 0xFFFF, 2, 1);
        t.count_class = (int)*gx::pick({0, 1, 2, 3, 4, 5, 6, 6, 6});
        t.count_any = (int)*gx::range<int64_t>(0, 0xFFFF);
        t.carried = (int)*gx::bnd({0, 1, 2, 3}, 0, 40, 2, 1);
        t.qtype = (int)*gx::pick({0x0E, 0x0E, 0x11, 0x13, 0x12, 0x00, 0xFF});
        t.qoff = (int)*gx::bnd({0, 0, 1, 0xFFFF, 541, 542, 542, 543, 1084, 1466, 2932}, 0, 0xFFFF, 2, 1);
        t.gen = (int)*gx::bnd({0, 1, 0xFFFF}, 0, 0xFFFF, 1, 1);
        t.trunc = *gx::chance(25) ? (int)*gx::bnd({0, 1, 13, 14, 17, 18, 31, 32, 33, 34, 35, 36, 46}, 0, 9216, 2, 1) : -1;
        t.pad_to_mtu = (int)*gx::pick({0, 0, 1});
        t.pad_fill = (int)*gx::pick({0, 1, 1, 2, 3, 4});
        t.ethertype = *gx::chance(6) ? (int)*gx::pick({0x8100, 0x8100, 0x88A8, 0x0800, 0x86DD, 0xD988, 0x88D8, 0x0000, 0xFFFF}) : -1;
        int nm = *gx::chance(25) ? (int)*gx::range<int64_t>(1, 4) : 0;
        for (int i = 0; i < nm; i++) t.mut.push_back({(int)*gx::bnd({12, 13, 14, 15, 16, 17, 30, 31, 32, 33, 34, 35}, 0, 9215, 2, 1), (int)*gx::pick({0, 1, 0x7F, 0x80, 0xFF, 0x55})});
        if (t.tmpl == 8) t.raw = *gx::bytes(0, 96);
        return t;
    });
}

