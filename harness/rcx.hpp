// rapidcheck glue: size-independent generators and the common "generate, run oracle, record" loop.
#pragma once
#include <rapidcheck.h>

#include "h.hpp"

namespace gx {
// integer in [lo, hi] independent of rapidcheck's size parameter (inRange collapses at small sizes)
template <class T>
rc::Gen<T> range(T lo, T hi) { return rc::gen::resize(100, rc::gen::inRange<T>(lo, (T)(hi + 1))); }
inline rc::Gen<int64_t> pick(std::vector<int64_t> v) { return rc::gen::elementOf(std::move(v)); }
// weighted: boundary dictionary (weight wb) or uniform range (weight wr)
inline rc::Gen<int64_t> bnd(std::vector<int64_t> dict, int64_t lo, int64_t hi, int wb = 1, int wr = 1) {
    return rc::gen::weightedOneOf<int64_t>({{(size_t)wb, pick(std::move(dict))}, {(size_t)wr, range<int64_t>(lo, hi)}});
}
inline rc::Gen<Bytes> bytes(size_t lo, size_t hi) {
    return rc::gen::mapcat(range<size_t>(lo, hi), [](size_t n) {
        return rc::gen::container<Bytes>(n, rc::gen::arbitrary<uint8_t>());
    });
}
// weighted choice over a run-time vector of alternatives
template <class T>
rc::Gen<T> weighted(std::vector<std::pair<size_t, rc::Gen<T>>> alts) {
    std::vector<size_t> cum;
    size_t tot = 0;
    for (auto &a : alts) { tot += a.first; cum.push_back(tot); }
    std::vector<rc::Gen<T>> gens;
    for (auto &a : alts) gens.push_back(a.second);
    return rc::gen::mapcat(range<size_t>(0, tot - 1), [cum, gens](size_t r) {
        size_t i = 0;
        while (cum[i] <= r) i++;
        return gens[i];
    });
}
inline rc::Gen<bool> chance(int percent) { return rc::gen::map(range<int>(0, 99), [percent](int v) { return v < percent; }); }
}  // namespace gx

struct Verdict {
    bool ok = true;
    std::string why;             // human-readable reason when !ok
    bool nontrivial = false;
    std::vector<std::string> classes;
    std::string sig;             // stable signature of the failure (matched against known_findings.txt)
    void fail(const std::string &w, const std::string &s = "") { if (ok) { ok = false; why = w; sig = s; } }
    void cls(const std::string &c) { classes.push_back(c); }
};
using RunFn = std::function<Verdict(const Case &)>;

// Generates n cases with rapidcheck (seeded), runs the oracle on each, records evidence.
// On the first failure rapidcheck shrinks; every failing evaluation overwrites a.failing, so the
// file left behind is the minimal one. Returns false on failure.
inline bool run_cases(const Args &a, Evidence &ev, const std::string &name, long n, int max_size,
                      const rc::Gen<Case> &gen, const RunFn &run) {
    rc::detail::TestParams params;
    params.seed = a.seed * 1000003ULL + (uint64_t)a.shard * 7919ULL + fnv(name.data(), name.size()) % 100000;
    params.maxSuccess = (int)n;
    params.maxSize = max_size;
    params.maxDiscardRatio = 10;
    rc::detail::TestMetadata md;
    md.id = name; md.description = name;
    bool failed_once = false;
    auto result = rc::detail::checkTestable([&] {
        Case c = *gen;
        CurrentScope scope(c);
        Verdict v = run(c);
        if (!v.ok && !v.sig.empty() && a.known.count(v.sig)) {   // listed known finding: excluded, counted, search goes on
            ev.count("excluded-known-finding:" + v.sig);
            v.ok = true; v.nontrivial = false;
        }
        if (!failed_once) {   // evidence counts only the search phase, not shrinking re-runs
            ev.note(c.digest(), v.nontrivial && v.ok, [&] { return c.to_text(); });
            for (auto &k : v.classes) ev.count(name + ":" + k);
        }
        if (!v.ok) {
            failed_once = true;
            write_file(a.failing, "# " + name + ": " + v.why + "\n# sig=" + (v.sig.empty() ? "-" : v.sig) + "\n" + c.to_text());
            RC_FAIL(v.why);
        }
    }, md, params);
    bool ok = result.template is<rc::detail::SuccessResult>();
    if (!ok) {
        rc::detail::printResultMessage(result, std::cerr);
        fprintf(stderr, "\nFAIL part=%s case=%s\n", name.c_str(), a.failing.c_str());
    }
    return ok;
}

// replay a saved case through the plain oracle (no library in the loop)
inline int replay_case(const Args &a, const RunFn &run) {
    std::string t;
    if (!read_file(a.replay, t)) { fprintf(stderr, "cannot read %s\n", a.replay.c_str()); return 2; }
    Case c;
    if (!Case::from_text(t, c)) { fprintf(stderr, "cannot parse %s\n", a.replay.c_str()); return 2; }
    CurrentScope scope(c);
    Verdict v = run(c);
    if (!v.ok) { printf("REPLAY-FAIL sig=%s %s\n", v.sig.empty() ? "-" : v.sig.c_str(), v.why.c_str()); return 1; }
    printf("REPLAY-PASS\n");
    return 0;
}
