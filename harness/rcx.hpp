// rapidcheck glue: size-independent generators and the common "generate, run oracle, record" loop.
#pragma once
#include <rapidcheck.h>

#include "h.hpp"

namespace gx {
// integer in [lo, hi] independent of rapidcheck's size parameter (inRange collapses at small sizes)
template <class T>
rc::Gen<T> range(T lo, T hi) { return rc::gen::resize(100, rc::gen::inRange<T>(lo, (T)(hi + 1))); }
inline rc::Gen<int64_t> pick(std::vector<int64_t> v) { return rc::gen::elementOf(std::move(v)); }
// weighted: boundary dictionary (weight wb) or uniform range (weight wr)
inline rc::Gen<int64_t> bnd(std::vector<int64_t> dict, int64_t lo, int64_t hi, int wb = 1, int wr = 1) {
    return rc::gen::weightedOneOf<int64_t>({{(size_t)wb, pick(std::move(dict))}, {(size_t)wr, range<int64_t>(lo, hi)}});
}
inline rc::Gen<Bytes> bytes(size_t lo, size_t hi) {
    return rc::gen::mapcat(range<size_t>(lo, hi), [](size_t n) {
        return rc::gen::container<Bytes>(n, rc::gen::arbitrary<uint8_t>());
    });
}
// weighted choice over a run-time vector of alternatives
template <class T>
rc::Gen<T> weighted(std::vector<std::pair<size_t, rc::Gen<T>>> alts) {
    std::vector<size_t> cum;
    size_t tot = 0;
    for (auto &a : alts) { tot += a.first; cum.push_back(tot); }
    std::vector<rc::Gen<T>> gens;
    for (auto &a : alts) gens.push_back(a.second);
    return rc::gen::mapcat(range<size_t>(0, tot - 1), [cum, gens](size_t r) {
        size_t i = 0;
        while (cum[i] <= r) i++;
        return gens[i];
    });
}
inline rc::Gen<bool> chance(int percent) { return rc::gen::map(range<int>(0, 99), [percent](int v) { return v < percent; }); }
}  // namespace gx

struct Verdict {
    bool ok = true;
    std::string why;             // human-readable reason when !ok
    bool nontrivial = false;
    std::vector<std::string> classes;
    std::string sig;             // stable signature of the failure (matched against known_findings.txt)
    uint64_t trace_digest = 0;   // digest of everything the case made the responder transmit (cross-build differential, C02)
    void fail(const std::string &w, const std::string &s = "") { if (ok) { ok = false; why = w; sig = s; } }
    void cls(const std::string &c) { classes.push_back(c); }
};
using RunFn = std::function<Verdict(const Case &)>;

// Runs the oracle on one case in a forked child, so that every case starts from pristine process state: a function-local
// `static` or a cached value introduced into the code under test cannot carry over from one generated case to the next (which
// would make the solo / interleaved / fresh-instance comparisons agree with each other for the wrong reason), and a crash of
// the code under test becomes an ordinary failing verdict that rapidcheck can shrink.
#include <sys/wait.h>
#include <ctime>
#include <unistd.h>
// true inside a child created by run_isolated (and in --replay mode): oracles that compare two instances may then put each
// instance into a process of its own (digests_in_child), so that not even function-local statics are shared between them
inline bool &in_isolated_child() { static bool b = false; return b; }

// evaluates f in a forked child and returns the 64-bit digests it produced (empty + ok=false if the child died)
inline std::vector<uint64_t> digests_in_child(const std::function<std::vector<uint64_t>()> &f, bool *ok) {
    int fd[2];
    *ok = true;
    if (pipe(fd) != 0) return f();
    fflush(stdout); fflush(stderr);
    pid_t pid = fork();
    if (pid < 0) { close(fd[0]); close(fd[1]); return f(); }
    if (pid == 0) {
        close(fd[0]);
        std::vector<uint64_t> v = f();
        uint64_t n = v.size();
        std::string out((const char *)&n, 8);
        out.append((const char *)v.data(), v.size() * 8);
        size_t off = 0;
        while (off < out.size()) { ssize_t w = write(fd[1], out.data() + off, out.size() - off); if (w <= 0) break; off += (size_t)w; }
        _exit(0);
    }
    close(fd[1]);
    std::string data;
    char buf[4096];
    for (;;) { ssize_t r = read(fd[0], buf, sizeof buf); if (r <= 0) break; data.append(buf, (size_t)r); }
    close(fd[0]);
    int status = 0;
    waitpid(pid, &status, 0);
    std::vector<uint64_t> v;
    if (!(WIFEXITED(status) && WEXITSTATUS(status) == 0) || data.size() < 8) { *ok = false; return v; }
    uint64_t n; memcpy(&n, data.data(), 8);
    if (data.size() != 8 + n * 8) { *ok = false; return v; }
    v.resize(n);
    if (n) memcpy(v.data(), data.data() + 8, n * 8);
    return v;
}
inline uint64_t ev_digest(const std::vector<Ev> &e) {
    uint64_t h = 1469598103934665603ULL;
    for (auto &x : e) { h = fnv(&x.kind, sizeof x.kind, h); h = fnv(&x.ifid, sizeof x.ifid, h); h = fnv(&x.ms, sizeof x.ms, h); uint64_t n = x.data.size(); h = fnv(&n, 8, h); if (n) h = fnv(x.data.data(), n, h); }
    return h;
}

// ---- pristine zygote -------------------------------------------------------------------------------------------------------
// Most generated cases run in the runner process itself, so that process is NOT pristine (a function-local static introduced into
// the code under test keeps whatever earlier cases left in it). Isolated evaluations therefore do not fork from the runner but from
// a zygote that is forked at the very start of main(), before any code under test has run, and that never runs any itself: it only
// forks one child per request. The child parses the case, evaluates it and sends the verdict back.
struct Zygote { int req = -1, resp = -1; pid_t pid = -1; };
inline Zygote &zygote() { static Zygote z; return z; }
inline std::string verdict_to_wire(const Verdict &v) {
    std::string why = v.why;
    for (auto &ch : why) if (ch == '\n') ch = ' ';
    std::string out = std::string(v.ok ? "1" : "0") + "\n" + (v.nontrivial ? "1" : "0") + "\n" + v.sig + "\n" + std::to_string(v.trace_digest) + "\n" + why + "\n";
    for (auto &k : v.classes) out += k + "\x1f";
    return out + "\n";
}
inline bool verdict_from_wire(const std::string &data, Verdict &v) {
    std::vector<std::string> lines;
    { std::istringstream is(data); std::string l; while (std::getline(is, l)) lines.push_back(l); }
    if (lines.size() < 6) return false;
    v.ok = lines[0] == "1"; v.nontrivial = lines[1] == "1"; v.sig = lines[2]; v.trace_digest = strtoull(lines[3].c_str(), nullptr, 10); v.why = lines[4];
    std::istringstream cs(lines[5]); std::string k;
    while (std::getline(cs, k, '\x1f')) if (!k.empty()) v.classes.push_back(k);
    return true;
}
inline bool write_all(int fd, const void *p, size_t n) { const char *c = (const char *)p; while (n) { ssize_t w = write(fd, c, n); if (w <= 0) return false; c += w; n -= (size_t)w; } return true; }
inline bool read_all(int fd, void *p, size_t n) { char *c = (char *)p; while (n) { ssize_t r = read(fd, c, n); if (r <= 0) return false; c += r; n -= (size_t)r; } return true; }
inline bool send_msg(int fd, const std::string &s) { uint32_t n = (uint32_t)s.size(); return write_all(fd, &n, 4) && write_all(fd, s.data(), n); }
inline bool recv_msg(int fd, std::string &s) { uint32_t n; if (!read_all(fd, &n, 4)) return false; s.resize(n); return n == 0 || read_all(fd, &s[0], n); }

// evaluates the case(s) of a saved text one after the other in this process; the verdict is that of the last one
inline Verdict run_text(const RunFn &run, const std::string &text, bool *parsed = nullptr) {
    Verdict v;
    if (parsed) *parsed = true;
    for (auto &part : split_cases(text)) {
        Case c;
        if (!Case::from_text(part, c)) { if (parsed) *parsed = false; v.ok = false; v.why = "unparsable case"; return v; }
        CurrentScope scope(c, false);
        v = run(c);
    }
    return v;
}
// call first thing in main() (not in replay mode, not under ThreadSanitizer)
inline void zygote_start(Verdict (*run)(const Case &)) {
    if (getenv("VERIF_NO_ISOLATE")) return;
#if defined(FLAVOUR_TSAN)
    return;
#endif
    int rq[2], rs[2];
    if (pipe(rq) != 0 || pipe(rs) != 0) return;
    fflush(stdout); fflush(stderr);
    pid_t pid = fork();
    if (pid < 0) return;
    if (pid == 0) {   // the zygote: pristine forever
        close(rq[1]); close(rs[0]);
        std::string text;
        while (recv_msg(rq[0], text)) {
            int cfd[2];
            if (pipe(cfd) != 0) { send_msg(rs[1], "CRASH pipe"); continue; }
            pid_t ch = fork();
            if (ch == 0) {
                close(cfd[0]); close(rq[0]); close(rs[1]);
                in_isolated_child() = true;
                Verdict v = run_text(run, text);
                std::string out = verdict_to_wire(v);
                write_all(cfd[1], out.data(), out.size());
                _exit(0);
            }
            close(cfd[1]);
            std::string data;
            char buf[4096];
            for (;;) { ssize_t r = read(cfd[0], buf, sizeof buf); if (r <= 0) break; data.append(buf, (size_t)r); }
            close(cfd[0]);
            int status = 0;
            waitpid(ch, &status, 0);
            if (WIFEXITED(status) && WEXITSTATUS(status) == 0 && !data.empty()) send_msg(rs[1], data);
            else send_msg(rs[1], WIFSIGNALED(status) ? fmt("CRASH signal %d", WTERMSIG(status)) : fmt("CRASH exit %d", WIFEXITED(status) ? WEXITSTATUS(status) : -1));
        }
        _exit(0);
    }
    close(rq[0]); close(rs[1]);
    zygote().req = rq[1]; zygote().resp = rs[0]; zygote().pid = pid;
}
inline Verdict run_isolated(const RunFn &run, const Case &c, const std::string &predecessors = std::string()) {
    Zygote &z = zygote();
    if (z.pid <= 0) return run(c);     // no zygote (ThreadSanitizer build, or isolation switched off)
    Verdict v;
    std::string resp;
    if (!send_msg(z.req, predecessors + c.to_text()) || !recv_msg(z.resp, resp)) { z.pid = -1; return run(c); }
    if (resp.compare(0, 5, "CRASH") == 0) {
        v.ok = false; v.sig = "crash";
        v.why = "the case crashed a freshly started process (" + resp.substr(6) + "): sanitizer report or abort, see the log";
        return v;
    }
    if (!verdict_from_wire(resp, v)) { v.ok = false; v.sig = "crash"; v.why = "no verdict came back from the fresh process"; }
    return v;
}

// Generates n cases with rapidcheck (seeded), runs the oracle on each, records evidence.
// On the first failure rapidcheck shrinks; every failing evaluation overwrites a.failing, so the
// file left behind is the minimal one. Returns false on failure.
inline bool run_cases(const Args &a, Evidence &ev, const std::string &name, long n, int max_size,
                      const rc::Gen<Case> &gen, const RunFn &run) {
    rc::detail::TestParams params;
    params.seed = a.seed * 1000003ULL + (uint64_t)a.shard * 7919ULL + fnv(name.data(), name.size()) % 100000;
    params.maxSuccess = (int)n;
    params.maxSize = max_size;
    params.maxDiscardRatio = 10;
    rc::detail::TestMetadata md;
    md.id = name; md.description = name;
    bool failed_once = false, failed_isolated = false;
    std::string failed_after;   // non-empty: the failure needs these predecessor cases to run first in the same process
    long evaluated = 0;
    time_t t_failed = 0;
    const long shrink_budget_s = a.quick() ? 40 : 150;
    FILE *digest_file = a.digests.empty() ? nullptr : fopen((a.digests + "." + name).c_str(), "w");
    if (a.dump_index >= 0) params.maxSuccess = (int)a.dump_index + 1;
    auto result = rc::detail::checkTestable([&] {
        Case c = *gen;
        CurrentScope scope(c, !failed_once);
        if (failed_once && time(nullptr) - t_failed > shrink_budget_s) return;   // shrinking budget used up: remaining candidates are not tried (counts as "does not fail")
        // a sample of the cases (evenly spread, about a.isolate_n per part and shard) runs in a forked child; a failing case keeps
        // being evaluated the way it failed, so that shrinking sees the same behaviour
        bool iso = a.isolate && (failed_once ? failed_isolated : (a.isolate_n > 0 && evaluated % std::max<long>(1, n / a.isolate_n) == 0));
        evaluated++;
        if (a.dump_index >= 0) {   // generation only: write the k-th generated case of this part and stop evaluating
            if (evaluated - 1 == a.dump_index) write_file(a.out, "# differential=autoinit part=" + name + "\n" + c.to_text());
            return;
        }
        Verdict v = iso ? run_isolated(run, c, failed_once ? failed_after : std::string()) : run(c);
        if (digest_file && !failed_once) fprintf(digest_file, "%016llx %016llx\n", (unsigned long long)c.digest(), (unsigned long long)v.trace_digest);
        if (!v.ok && !iso && a.isolate && !failed_once) {
            // A case is self-contained: if it only fails after other cases have run in this process, the code under test keeps
            // process-wide state between "instances" (a function-local static, a cache). That is not a violation by this case -
            // it is reported in the evidence and the search goes on; a genuine violation reproduces in the fresh process.
            Verdict v2 = run_isolated(run, c);
            if (v2.ok && zygote().pid > 0 && !Current::prev().empty()) {
                // ... unless it does reproduce in a fresh process that first runs the few cases that preceded it here: instances that
                // follow one another in one process (an interface goes away, another appears) are a legitimate history, and the
                // reproduction is that short run of cases.
                std::string before = Current::prev_text();
                Verdict v3 = run_isolated(run, c, before);
                if (!v3.ok) { v2 = v3; failed_after = before; ev.count(name + ":failed-only-after-its-predecessors(reproduced-in-a-fresh-process)"); }
            }
            if (v2.ok) { ev.count(name + ":failed-only-with-state-of-earlier-cases(not-counted)"); v = v2; }
            else { v = v2; iso = true; }
        }
        if (!v.ok && !failed_once) failed_isolated = iso;
        if (iso && !failed_once) ev.count(name + ":evaluated-in-a-fresh-process");
        if (!v.ok && !v.sig.empty() && a.known.count(v.sig)) {   // listed known finding: excluded, counted, search goes on
            ev.count("excluded-known-finding:" + v.sig);
            v.ok = true; v.nontrivial = false;
        }
        if (!failed_once) {   // evidence counts only the search phase, not shrinking re-runs
            ev.note(c.digest(), v.nontrivial && v.ok, [&] { return c.to_text(); });
            for (auto &k : v.classes) ev.count(name + ":" + k);
        }
        if (!v.ok) {
            if (!failed_once) t_failed = time(nullptr);
            failed_once = true;
            write_file(a.failing, "# " + name + ": " + v.why + "\n# sig=" + (v.sig.empty() ? "-" : v.sig) + "\n" + failed_after + c.to_text());
            RC_FAIL(v.why);
        }
    }, md, params);
    if (digest_file) fclose(digest_file);
    bool ok = result.template is<rc::detail::SuccessResult>();
    if (!ok) {
        rc::detail::printResultMessage(result, std::cerr);
        fprintf(stderr, "\nFAIL part=%s case=%s\n", name.c_str(), a.failing.c_str());
    }
    return ok;
}

// replay a saved case through the plain oracle (no library in the loop)
inline int replay_case(const Args &a, const RunFn &run) {
    std::string t;
    if (!read_file(a.replay, t)) { fprintf(stderr, "cannot read %s\n", a.replay.c_str()); return 2; }
    in_isolated_child() = !getenv("VERIF_NO_ISOLATE");
    bool parsed = true;
    Verdict v = run_text(run, t, &parsed);
    if (!parsed) { fprintf(stderr, "cannot parse %s\n", a.replay.c_str()); return 2; }
    if (!v.ok) { printf("REPLAY-FAIL sig=%s %s\n", v.sig.empty() ? "-" : v.sig.c_str(), v.why.c_str()); return 1; }
    printf("REPLAY-PASS\n");
    return 0;
}
