// C09 — A Reset returns the responder to fresh-start behaviour (differential: post-Reset instance vs fresh instance).
#include "hist.hpp"
#include "tgen.hpp"

enum { K_MARK = 40, K_FLOOD = 41, K_ESTORM = 42 };   // K_ESTORM a: number of full-capacity Emits from station 0 (history before the Reset only)   // K_FLOOD a: first id, count (history before the Reset only)   // a: reset sender station, rdst_bcast   — ops before it are h, after it are c

// the continuation c delivered to a never-used instance; per-step digests of the transmit events
static std::vector<uint64_t> fresh_digests(const Case &c) {
    std::vector<uint64_t> d;
    HCfg h = HCfg::from_case(c);
    World w;
    h.apply_global(w);
    int F = w.add_if(h.ifcfg());
    size_t mark = c.ops.size();
    for (size_t i = 0; i < c.ops.size(); i++) if (c.ops[i].kind == K_MARK) { mark = i; break; }
    for (size_t i = 0; i < mark; i++) {   // machine-wide changes made during h are part of the configuration both instances see
        if (c.ops[i].kind == K_ADVANCE) vp_set_now_ms(vp_now_ms() + (uint64_t)c.ops[i].arg(0));
        if (c.ops[i].kind == K_SETICON) w.set_icon(c.ops[i].blob);
    }
    Shadow sc;
    for (size_t i = mark + 1; i < c.ops.size(); i++) {
        const Op &op = c.ops[i];
        if (op.kind == K_ADVANCE) { vp_set_now_ms(vp_now_ms() + (uint64_t)op.arg(0)); continue; }
        if (op.kind == K_SETICON) { w.set_icon(op.blob); continue; }
        if (op.kind == K_MARK) continue;
        if (op.kind == K_FLOOD) {
            Mac own = h.ownmac();
            for (int64_t k = 0; k < std::min<int64_t>(op.arg(1), 3000); k++)
                (void)w.deliver(F, mk_simple(own, mac_from_u64(0x0600CC000000ULL + (uint64_t)(op.arg(0) + k)), 0, (k & 1) ? OP_PROBE : OP_TRAIN, own, mac_from_u64(0x0600DD000000ULL + (uint64_t)((op.arg(0) + k) % 5)), 0));
            d.push_back(0);
            continue;
        }
        Built b = build_frame(h, op, sc);
        if (!b.is_frame) continue;
        if (b.frame.size() > h.mtu) b.frame.resize(h.mtu);
        std::vector<Ev> ef = w.deliver(F, b.frame);
        for (auto &e : ef) if (e.ifid == F) e.ifid = 0;
        d.push_back(ev_digest(ef));
        shadow_update_sem(sc, frame_sem(b.frame), b);
    }
    return d;
}

static Verdict run(const Case &c) {
    Verdict v;
    // sampled (forked) evaluations: "a responder that has just been started" is taken literally - a fresh process, forked before
    // this process has executed any code under test
    std::vector<uint64_t> fresh_proc;
    bool have_fresh = false;
    if (in_isolated_child()) {
        bool okc = true;
        fresh_proc = digests_in_child([&] { return fresh_digests(c); }, &okc);
        if (!okc) { v.fail("the continuation crashed a freshly started instance"); return v; }
        have_fresh = true;
    }
    std::vector<uint64_t> post_reset;
    HCfg h = HCfg::from_case(c);
    World w;
    h.apply_global(w);
    int P = w.add_if(h.ifcfg());     // receives h . Reset . c
    int F = w.add_if(h.ifcfg());     // receives c only (never used before)
    size_t mark = c.ops.size();
    for (size_t i = 0; i < c.ops.size(); i++) if (c.ops[i].kind == K_MARK) { mark = i; break; }
    // ---- h on P
    Shadow sh;
    size_t h_tx = 0;
    bool h_obs = false, h_icon = false, flooded = false;
    for (size_t i = 0; i < mark; i++) {
        const Op &op = c.ops[i];
        if (op.kind == K_ADVANCE) { vp_set_now_ms(vp_now_ms() + (uint64_t)op.arg(0)); continue; }
        if (op.kind == K_SETICON) { w.set_icon(op.blob); continue; }
        if (op.kind == K_ESTORM) {   // a long working session: many maximum-size Emits (thousands of frames emitted) - whatever the responder counts, the Reset starts it afresh
            Mac own = h.ownmac(), m0 = h.st_real(0);
            std::vector<EmitDesc> d((h.mtu - 34) / 14, EmitDesc{1, 0, own, mac_from_u64(0x0400F0000001ULL)});
            vp_log_enable(0);
            for (int64_t k = 0; k < std::min<int64_t>(op.arg(0), 80); k++) (void)w.deliver(P, mk_emit(own, m0, own, m0, (uint16_t)(k + 1), d));
            vp_log_enable(1);
            (void)drain_log();
            if (sh.active < 0) { sh.active = 0; sh.bridged = false; }
            continue;
        }
        if (op.kind == K_FLOOD) {   // a flood of pairwise distinct Probe/Train frames and no Query: whatever limit the responder hits, the Reset clears that too
            Mac own = h.ownmac();
            for (int64_t k = 0; k < std::min<int64_t>(op.arg(1), 3000); k++)
                (void)w.deliver(P, mk_simple(own, mac_from_u64(0x0600CC000000ULL + (uint64_t)(op.arg(0) + k)), 0, (k & 1) ? OP_PROBE : OP_TRAIN, own, mac_from_u64(0x0600DD000000ULL + (uint64_t)((op.arg(0) + k) % 5)), 0));
            h_obs = true; flooded = true;
            continue;
        }
        Built b = build_frame(h, op, sh);
        if (!b.is_frame) continue;
        if (b.frame.size() > h.mtu) b.frame.resize(h.mtu);
        h_tx += sends_only(w.deliver(P, b.frame)).size();
        if (op.kind == K_PROBE && op.arg(3) == 0) h_obs = true;
        if (op.kind == K_QLT && op.arg(2) == 0x0E && op.arg(1) != 0 && h.icon_state) h_icon = true;
        shadow_update_sem(sh, frame_sem(b.frame), b);
    }
    if (mark == c.ops.size()) { v.cls("no-continuation"); return v; }
    // ---- topology Reset on P
    {
        const Op &m = c.ops[mark];
        Mac s = h.st_real((int)m.arg(0)), own = h.ownmac();
        Mac d = m.arg(1) ? BCAST : own;
        (void)w.deliver(P, mk_simple(d, s, 0, OP_RESET, d, s, (uint16_t)m.arg(2)));
    }
    // ---- c on both, step by step
    Shadow sc;
    size_t c_tx = 0;
    for (size_t i = mark + 1; i < c.ops.size() && v.ok; i++) {
        const Op &op = c.ops[i];
        if (op.kind == K_ADVANCE) { vp_set_now_ms(vp_now_ms() + (uint64_t)op.arg(0)); continue; }
        if (op.kind == K_SETICON) { w.set_icon(op.blob); continue; }
        if (op.kind == K_MARK) continue;
        if (op.kind == K_FLOOD) {   // after the Reset as well: both instances see the same flood (what they retained shows in the Queries that follow)
            Mac own = h.ownmac();
            for (int64_t k = 0; k < std::min<int64_t>(op.arg(1), 3000); k++) {
                Bytes f = mk_simple(own, mac_from_u64(0x0600CC000000ULL + (uint64_t)(op.arg(0) + k)), 0, (k & 1) ? OP_PROBE : OP_TRAIN, own, mac_from_u64(0x0600DD000000ULL + (uint64_t)((op.arg(0) + k) % 5)), 0);
                (void)w.deliver(P, f); (void)w.deliver(F, f);
            }
            post_reset.push_back(0);
            continue;
        }
        Built b = build_frame(h, op, sc);
        if (!b.is_frame) continue;
        if (b.frame.size() > h.mtu) b.frame.resize(h.mtu);
        std::vector<Ev> ep = w.deliver(P, b.frame), ef = w.deliver(F, b.frame);
        for (auto &e : ep) if (e.ifid == P) e.ifid = 0;
        for (auto &e : ef) if (e.ifid == F) e.ifid = 0;
        c_tx += sends_only(ef).size();
        post_reset.push_back(ev_digest(ep));
        if (!(ep == ef)) {
            std::string a = ep.empty() ? "nothing" : ep[0].str().substr(0, 140), bb = ef.empty() ? "nothing" : ef[0].str().substr(0, 140);
            size_t k = 0;
            while (k < ep.size() && k < ef.size() && ep[k] == ef[k]) k++;
            if (k < ep.size()) a = ep[k].str().substr(0, 160); else a = "nothing more";
            if (k < ef.size()) bb = ef[k].str().substr(0, 160); else bb = "nothing more";
            v.fail(fmt("continuation step %zu (op kind %d): post-Reset instance and fresh instance differ at event %zu: post-Reset %s / fresh %s", i - mark - 1, op.kind, k, a.c_str(), bb.c_str()));
        }
        shadow_update_sem(sc, frame_sem(b.frame), b);
    }
    if (v.ok && have_fresh) {
        for (size_t k = 0; k < post_reset.size() && k < fresh_proc.size(); k++)
            if (post_reset[k] != fresh_proc[k]) { v.fail(fmt("continuation step %zu: the post-Reset instance differs from an instance in a freshly started process (process-wide state survives the Reset)", k)); break; }
        v.cls("fresh-instance-in-fresh-process");
    }
    v.nontrivial = h_tx >= 2 && (h_obs || h_icon) && c_tx >= 2;
    if (h_obs) v.cls("h-recorded-observation");
    if (h_icon) v.cls("h-cached-icon");
    if (flooded) v.cls("h-flooded-beyond-the-retention-cap");
    if (c_tx >= 2) v.cls("c-elicits>=2");
    return v;
}

int main(int argc, char **argv) {
    Args a = parse_args(argc, argv);
    if (!a.replay.empty()) return replay_case(a, run);
    zygote_start(run);   // before any code under test runs in this process
    Current::install(a.failing);
    Evidence ev;
    ev.rule = "pairs (h, c) of independently generated histories (valid sessions of several mappers in both services, observations, icon fetches, noise, raw/mutated frames; no domain restriction); "
              "context P receives h . topology Reset . c, a never-used context F with the same configuration receives c; per-step transmit events (bytes, sleeps) must be equal. "
              "c is seeded with probes for leftovers: Query, Emit, QueryLargeTlv(icon) after the platform swapped the icon, Discover with generation 0 from a new station. "
              "non-trivial = h transmitted >= 2 frames and recorded an observation or cached an icon, and c elicits >= 2 transmissions; distinct = digest of the case";
    HistWeights wh;
    wh.commands_from_active_only = false; wh.pburst = 1; wh.probe = 6; wh.qlt = 4; wh.seticon = 1; wh.nstations = 4; wh.raw = 1;
    HistWeights wc = wh;
    wc.reset = 1;
    auto gen = rc::gen::exec([=] {
        HCfg h = *hg::cfg_gen();
        h.icon_state = (int)*gx::pick({1, 1, 1, 1, 1, 0});
        Case c; h.to_case(c);
        c.ops = *hg::ops_gen(wh, 0, 60);
        if (*gx::chance(6)) { Op f; f.kind = K_FLOOD; f.a = {*gx::range<int64_t>(0, 100000), *gx::pick({1023, 1024, 1025, 1026, 1100, 2100})}; c.ops.insert(c.ops.begin() + *gx::range<int>(0, (int)c.ops.size()), f); }
        if (*gx::chance(3)) { Op es; es.kind = K_ESTORM; es.a = {*gx::pick({20, 25, 60, 80})}; c.ops.insert(c.ops.begin() + *gx::range<int>(0, (int)c.ops.size()), es); }
        Op m; m.kind = K_MARK; m.a = {*gx::range<int64_t>(0, 3), *gx::pick({0, 1}), *gx::pick({0, 1, 0xFFFF})};
        c.ops.push_back(m);
        // leftovers probes first, in generated order
        std::vector<Op> probes;
        if (*gx::chance(50)) { Op o; o.kind = K_SETICON; o.blob = *gx::bytes(1, 600); probes.push_back(o); }
        { Op o; o.kind = K_PROBE; o.a = {*gx::range<int64_t>(0, 5), *gx::range<int64_t>(0, 2), *gx::pick({0, 1}), 0}; if (*gx::chance(50)) probes.push_back(o); }   // an observation right after the Reset ...
        { Op o; o.kind = K_QUERY; o.a = {*gx::range<int64_t>(0, 3), *hg::seq_gen()}; if (*gx::chance(70)) probes.push_back(o); }                                      // ... must be in the first report
        { Op o; o.kind = K_EMIT; o.a = {*gx::range<int64_t>(0, 3), *hg::seq_gen(), -1}; o.blob = *hg::emit_descs(3); if (*gx::chance(70)) probes.push_back(o); }
        { Op o; o.kind = K_QLT; o.a = {*gx::range<int64_t>(0, 3), *hg::seq_gen(), 0x0E, *gx::pick({0, 1, 100}), 0}; if (*gx::chance(70)) probes.push_back(o); }
        { Op o; o.kind = K_DISCOVER; o.a = {*gx::range<int64_t>(0, 3), *gx::pick({0, 1}), *gx::pick({0, 0, 5}), 1, *gx::pick({0, 1}), 0, -1}; if (*gx::chance(80)) probes.push_back(o); }
        int rot = *gx::range<int>(0, 4);
        if (!probes.empty()) std::rotate(probes.begin(), probes.begin() + (rot % probes.size()), probes.end());
        c.ops.insert(c.ops.end(), probes.begin(), probes.end());
        auto tail = *hg::ops_gen(wc, 0, 30);
        c.ops.insert(c.ops.end(), tail.begin(), tail.end());
        if (*gx::chance(3)) {   // a flood after the Reset, then the mapper drains it
            Op f; f.kind = K_FLOOD; f.a = {*gx::range<int64_t>(200000, 300000), *gx::pick({1024, 1025, 1030, 1100})};
            c.ops.push_back(f);
            int nq = (int)(1100 / ((h.mtu - 34) / 20)) + 3;
            for (int q = 0; q < nq; q++) { Op o; o.kind = K_QUERY; o.a = {0, 300 + q}; c.ops.push_back(o); }
        }
        return c;
    });
    bool ok = run_cases(a, ev, "c09-pairs", a.n(60000, 800000), 100, gen, run);
    ev.write(a.out);
    return ok ? 0 : 1;
}
