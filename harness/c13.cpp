// C13 — RepeatBand back-off follows its formula and is monotone in load.
#include "rcx.hpp"

static long NMAX, ALPHA, BETA, GAMMA, TXC;

static uint64_t want_ni(uint64_t r, bool begun, uint64_t prior) {
    if (!(r > 0 && begun)) return prior;
    unsigned __int128 x = (unsigned __int128)45 * r * r;      // documented: ALPHA * r^BETA with ALPHA 45, BETA 2, no wrap-around
    return x > 10000 ? 10000 : (uint64_t)x;
}
static uint64_t min_interval(uint64_t ni) {                   // ceil(TXC * Ni * 20 / (3 * GAMMA)), never below one frame time (6 ms)
    uint64_t num = 4 * ni * 20, den = 30, v = (num + den - 1) / den;
    return v < 6 ? 6 : v;
}

// cfg: [0] r, [1] begun, [2] prior Ni, [3] now_ms
static uint64_t g_late_ms = 0;   // how long after the block deadline the block is closed (0 = deadline not set at all)
static std::string step(void *band, uint64_t r, bool begun, uint64_t prior, uint64_t now, uint64_t *ni_out, uint64_t *iv_out) {
    br_band b{};
    b.Ni = (uint32_t)prior; b.r = (uint32_t)r; b.begun = begun; b.hello_ts = 0; b.block_ts = g_late_ms ? now - (g_late_ms - 1) : 0;
    br_band_set(band, &b);
    vp_set_now_ms(now);
    br_band_update_stats(band);
    br_band_get(band, &b);
    uint64_t w = want_ni(r, begun, prior);
    if (b.Ni != w) return fmt("r=%llu begun=%d prior Ni=%llu: Ni became %u, formula min(10000, 45*r^2) gives %llu", (unsigned long long)r, begun, (unsigned long long)prior, b.Ni, (unsigned long long)w);
    if (b.r != 0) return fmt("r=%llu: counter not reset (r=%u)", (unsigned long long)r, b.r);
    if (b.block_ts != now + 300) return fmt("r=%llu: block deadline %llu != now+300", (unsigned long long)r, (unsigned long long)b.block_ts);
    if (b.begun != (int)begun) return "begun flag changed by update_stats";
    if (prior >= 45 && prior <= 10000 && (b.Ni < 45 || b.Ni > 10000)) return fmt("r=%llu: Ni=%u left the range [45, 10000]", (unsigned long long)r, b.Ni);
    uint64_t t = br_band_choose_hello_time(band);
    br_band_get(band, &b);
    if (t != b.hello_ts) return "choose_hello_time returns a value different from the stored deadline";
    if (b.hello_ts < now) return "hello deadline in the past";
    uint64_t iv = b.hello_ts - now;
    if (iv < min_interval(w)) return fmt("r=%llu begun=%d prior=%llu: next Hello after %llu ms, load formula for Ni=%llu demands >= %llu ms", (unsigned long long)r, begun, (unsigned long long)prior, (unsigned long long)iv, (unsigned long long)w, (unsigned long long)min_interval(w));
    *ni_out = b.Ni; *iv_out = iv;
    return "";
}

static void noop_hello(void *) {}

// cfg[5] = 1: through automata_tick's block-timeout path, r built up by band_on_hello_received; = 2: the Hello deadline expires in the same tick
static Verdict run_tick(const Case &c) {
    Verdict v;
    uint64_t r = (uint64_t)std::max<int64_t>(0, std::min<int64_t>(c.c(0), 100000));
    bool hello_due = c.c(5) == 2;
    uint64_t late = (uint64_t)std::max<int64_t>(0, std::min<int64_t>(c.c(6), 5000));   // the tick that closes the block comes this many ms after the deadline
    World w;
    void *en = br_init_enumeration(), *tb = br_st_create();
    void *band = br_aut_extra(en);
    Mac m = {{2, 0, 0, 0, 0, 9}};
    vp_set_now_ms(10000);
    br_st_add(tb, m.b, 1, 1);
    br_aut_set_state(en, 1);
    br_band_init_stats(band);
    for (uint64_t k = 0; k < r; k++) br_band_on_hello_received(band);
    br_band b; br_band_get(band, &b);
    bool begun = b.begun != 0;
    uint64_t prior = b.Ni, last = 0;
    int user = 1;
    if (hello_due) { b.hello_ts = 10300 + late; br_band_set(band, &b); }
    vp_set_now_ms(10300 + late);                       // block deadline reached; Hello deadline none pending (mode 1) or due now (mode 2)
    br_tick(nullptr, en, tb, &user, &last, noop_hello, 1);
    br_band_get(band, &b);
    // a Hello transmitted earlier in the same tick begins the enumeration (band_do_hello), so the block that ends in this tick is judged with begun = true
    bool begun_at_block_end = begun || hello_due;
    uint64_t wni = want_ni(r, begun_at_block_end, prior);
    if (begun != (r >= 10)) v.fail(fmt("after %llu Hellos heard in the first block 'begun' is %d (documented: begins once GAMMA = 10 were heard)", (unsigned long long)r, begun));
    else if (b.Ni != wni) v.fail(fmt("tick path: after %llu Hellos heard and a block timeout%s Ni=%u, formula gives %llu", (unsigned long long)r, hello_due ? " in a tick that also sent a Hello" : "", b.Ni, (unsigned long long)wni));
    else if (b.r != 0) v.fail("tick path: counter not reset at the end of the block");
    else if (b.hello_ts < 10300 + late + min_interval(wni)) v.fail(fmt("tick path: after %llu Hellos heard and a block timeout%s the next Hello is due %llu ms after the tick; the load formula for Ni=%llu demands >= %llu ms",
                                                               (unsigned long long)r, hello_due ? " in a tick that also sent a Hello" : "", (unsigned long long)(b.hello_ts - 10300 - late), (unsigned long long)wni, (unsigned long long)min_interval(wni)));
    br_st_destroy(tb);
    br_automata_destroy(en);
    v.nontrivial = r > 0 && begun_at_block_end;
    if (v.nontrivial) v.cls(hello_due ? "tick-path-hello-and-block-in-one-tick" : "tick-path");
    return v;
}

// cfg[5] = 3: whole enumeration rounds through the transcribed Darwin frame flow: Discovers from up to four mappers (acknowledging this
// station or not), Hellos heard, Resets, ticks and clock advances in any order; cfg[7] = clock at the start (ms).
// ops: 1 Discover (a: mapper, acknowledging, generation, xid) 2 Hellos heard (a: how many) 3 tick 4 advance (a: ms) 5 Reset (a: mapper) 6 other frame (a: mapper, opcode)
// Every block end that the tick evaluates is judged against what was HEARD since the previous block end (or the start of the round):
// Ni = formula(r) when r > 0 and the enumeration has begun (own Hello sent, a further Discover during the round, or GAMMA Hellos heard),
// unchanged otherwise; the next Hello no sooner than the load formula allows; a due block is in fact evaluated.
static void count_hello(void *u) { ++*(int *)u; }
static Verdict run_flow(const Case &c) {
    Verdict v;
    World w;
    IfCfg ic;
    int ifi = w.add_if(ic);
    int sent = 0;
    br_darwin d{};
    memcpy(d.mac, ic.mac.b, 6);
    d.ctx = w.ctx(ifi); d.send_hello = count_hello; d.user = &sent; d.call_parse_frame = 0; d.skip_trailing_tick = 1;
    uint64_t now = (uint64_t)std::max<int64_t>(1000, c.c(7, 10000));
    vp_set_now_ms(now);
    if (br_darwin_init(&d) != 0) { v.fail("constructors failed"); return v; }
    void *band = br_aut_extra(d.enumeration);
    uint64_t mr = 0; bool mbegun = false;
    int blocks = 0, formula_blocks = 0, rounds = 0, quiet_ends = 0;
    auto tick = [&](size_t i) {
        br_band b0; br_band_get(band, &b0);
        int sent0 = sent;
        br_darwin_idle_tick(&d);
        br_band b1; br_band_get(band, &b1);
        int es1 = br_aut_state(d.enumeration);
        if (sent != sent0) mbegun = true;                                  // a Hello of our own begins the enumeration
        bool due = es1 == 1 && b0.block_ts > 0 && now >= b0.block_ts;
        if (due) {
            uint64_t wni = want_ni(mr, mbegun, b0.Ni);
            blocks++;
            if (mr > 0 && mbegun) formula_blocks++;
            if (b1.Ni != wni) v.fail(fmt("step %zu: block closed at t=%llu after %llu Hello(s) heard in it, enumeration %s, prior Ni=%u: Ni became %u, expected %llu", i, (unsigned long long)now, (unsigned long long)mr, mbegun ? "begun" : "not begun", b0.Ni, b1.Ni, (unsigned long long)wni));
            else if (b1.block_ts < now + 1) v.fail(fmt("step %zu: the block due at %llu was not closed by the tick at %llu", i, (unsigned long long)b0.block_ts, (unsigned long long)now));
            else if (b1.hello_ts < now + min_interval(wni)) v.fail(fmt("step %zu: block closed with Ni=%llu, next Hello due %lld ms after the tick; the load formula demands >= %llu ms", i, (unsigned long long)wni, (long long)(b1.hello_ts - now), (unsigned long long)min_interval(wni)));
            mr = 0;
        } else if (b1.Ni != b0.Ni && es1 == 1) v.fail(fmt("step %zu: tick at t=%llu changed Ni %u -> %u although no block was due (deadline %llu)", i, (unsigned long long)now, b0.Ni, b1.Ni, (unsigned long long)b0.block_ts));
        if (v.ok && (b1.Ni < 45 || b1.Ni > 10000)) v.fail(fmt("step %zu: Ni=%u outside [45, 10000]", i, b1.Ni));
        if (es1 == 0 && b1.block_ts == 0) mbegun = false;                  // table empty: the round is over
        if (es1 == 0 && b1.block_ts != 0) quiet_ends++;                    // round over because every session is complete
    };
    for (size_t i = 0; i < c.ops.size() && v.ok; i++) {
        const Op &op = c.ops[i];
        if (op.kind == 4) { now += (uint64_t)std::max<int64_t>(0, std::min<int64_t>(op.arg(0), 100000)); vp_set_now_ms(now); continue; }
        if (op.kind == 3) { tick(i); continue; }
        Bytes f;
        int reps = 1;
        Mac mp = mac_from_u64(0x0200AA000001ULL + ((uint64_t)(op.arg(0) & 3) << 8));
        if (op.kind == 1) {
            std::vector<Mac> st = {mac_from_u64(0x0600BB000001ULL)};
            if (op.arg(1)) st.push_back(ic.mac);
            f = mk_discover(mp, mp, 0, (uint16_t)op.arg(3, 1), (uint16_t)op.arg(2, 1), st);
        } else if (op.kind == 2) {
            Mac h = mac_from_u64(0x0200CC000001ULL);
            f = mk_hello(h, 0, 1, mp, mp);
            reps = (int)std::max<int64_t>(1, std::min<int64_t>(op.arg(0), 300));
        } else if (op.kind == 5) f = mk_simple(BCAST, mp, 0, OP_RESET, BCAST, mp, 0);
        else if (op.kind == 6) {   // any other frame of the mapper (Emit, Query, Charge, Probe ...): moves the mapping engine, never the RepeatBand numbers
            uint8_t opc = (uint8_t)op.arg(1);
            if (opc == OP_DISCOVER || opc == OP_HELLO || opc == OP_RESET) opc = OP_EMIT;
            f = mk_simple(ic.mac, mp, 0, opc, ic.mac, mp, 3);
            if (opc == OP_EMIT) { f.push_back(0); f.push_back(0); }
        }
        else continue;
        for (int k = 0; k < reps && v.ok; k++) {
            int es0 = br_aut_state(d.enumeration);
            uint8_t *tf;
            uint8_t *b = w.stage(ifi, f, CLEAN, &tf);
            br_darwin_rx(&d, b, f.size());
            free(tf);
            if (op.kind == 2) { mr++; if (mr >= 10) mbegun = true; }
            if (op.kind == 1) { if (es0 == 0) { mr = 0; mbegun = false; rounds++; } else mbegun = true; }
            tick(i);   // the frame flow ends with a tick
        }
    }
    br_darwin_destroy(&d);
    v.nontrivial = formula_blocks > 0;
    if (blocks) v.cls("flow:block-closed");
    if (formula_blocks) v.cls("flow:block-closed-in-the-formula-branch");
    if (rounds >= 2) v.cls("flow:several-rounds");
    if (rounds >= 2 && quiet_ends) v.cls("flow:round-after-a-round-that-ended-with-all-sessions-complete");
    if (now >= (1ULL << 32)) v.cls("flow:clock-beyond-2^32-ms");
    return v;
}

static Verdict run(const Case &c) {
    if (c.c(5) == 3) return run_flow(c);
    if (c.c(5) != 0) return run_tick(c);
    Verdict v;
    World w;
    void *en = br_init_enumeration();
    void *band = br_aut_extra(en);
    uint64_t r = (uint64_t)c.c(0) & 0xFFFFFFFFu, prior = (uint64_t)c.c(2, 45), now = (uint64_t)c.c(3, 1000);
    bool begun = c.c(1) != 0;
    g_late_ms = (uint64_t)std::max<int64_t>(0, std::min<int64_t>(c.c(6), (int64_t)now));   // cfg[6]: lateness + 1 of the closing call (0: no deadline armed)
    uint64_t ni, iv;
    std::string e = step(band, r, begun, prior, now, &ni, &iv);
    if (!e.empty()) v.fail(e);
    // monotonicity against the next larger load
    if (v.ok && r < 0xFFFFFFFFu && c.c(4, 1)) {
        uint64_t r2 = std::min<uint64_t>(0xFFFFFFFFu, r + (uint64_t)std::max<int64_t>(1, c.c(4, 1))), ni2, iv2;
        e = step(band, r2, begun, prior, now, &ni2, &iv2);
        if (!e.empty()) v.fail(e);
        else if (begun && r > 0 && (ni2 < ni || iv2 < iv)) v.fail(fmt("not monotone: r=%llu gives Ni=%llu/interval %llu ms, r=%llu gives Ni=%llu/interval %llu ms", (unsigned long long)r, (unsigned long long)ni, (unsigned long long)iv, (unsigned long long)r2, (unsigned long long)ni2, (unsigned long long)iv2));
    }
    // the result is a function of THIS block's count alone: the same automaton - and a second one next to it - evaluated right afterwards
    // with the count that shares the low 16 bits, and with the same count again, gives what the formula says for those counts
    if (v.ok && begun && r >= 65536) {
        void *en2 = br_init_enumeration();
        uint64_t ni3, iv3;
        for (void *b : {band, br_aut_extra(en2)})
            for (uint64_t r3 : {r & 0xFFFF, r}) {
                if (!v.ok) break;
                e = step(b, r3, begun, prior, now, &ni3, &iv3);
                if (!e.empty()) v.fail("after a block with r=" + std::to_string(r) + ": " + e);
            }
        br_automata_destroy(en2);
        v.cls("followed-by-the-count-with-the-same-low-16-bits");
    }
    br_automata_destroy(en);
    v.nontrivial = r > 0 && begun;
    if (v.nontrivial) v.cls(r >= 9770 ? "formula-branch-r>=9770" : "formula-branch");
    return v;
}

static bool one(const Args &a, Evidence &ev, uint64_t r, int begun, uint64_t prior, const char *part) {
    static const int64_t lates[] = {0, 1, 2, 61, 201, 300, 301, 1001, 4000};   // the count is what was HEARD, however late the block is closed
    static const int64_t clocks[] = {5000, 5000, 4294967296LL - 4000, 4294967296LL - 1, 4294967296LL, 4294967296LL + 12345, (1LL << 40) + 7, (1LL << 53) + 1};   // uptime up to and far beyond 49.7 days
    Case c; c.cfg = {(int64_t)r, begun, (int64_t)prior, clocks[(r * 3 + (uint64_t)begun) % 8], 1, 0, lates[(r * 7 + (uint64_t)begun + prior) % 9]};
    CurrentScope scope(c);
    Verdict v = run(c);
    ev.note(c.digest(), v.nontrivial && v.ok, [&] { return c.to_text(); });
    for (auto &k : v.classes) ev.count(std::string(part) + ":" + k);
    if (!v.ok) { write_file(a.failing, std::string("# ") + part + ": " + v.why + "\n" + c.to_text()); fprintf(stderr, "FAIL part=%s %s\n", part, v.why.c_str()); return false; }
    return true;
}

int main(int argc, char **argv) {
    Args a = parse_args(argc, argv);
    NMAX = br_const("BAND_NMAX"); ALPHA = br_const("BAND_ALPHA"); BETA = br_const("BAND_BETA"); GAMMA = br_const("BAND_GAMMA"); TXC = br_const("BAND_TXC");
    if (!a.replay.empty()) return replay_case(a, run);
    zygote_start(run);   // before any code under test runs in this process
    Current::install(a.failing);
    Evidence ev;
    ev.rule = "band_update_stats + band_choose_hello_time on a real enumeration automaton with (r, begun, prior Ni) set through the bridge; oracle in 128-bit arithmetic from the statement "
              "(Ni = min(10000, 45 r^2), interval >= ceil(4 Ni 20/30) and >= 6 ms, range [45,10000], monotone in r). Quick: r in 0..70000 contiguous, 2^k-1/2^k/2^k+1, j*65536 +-1, odd multiples of 2^16, "
              "10^5 random, prior Ni in {45,46,9999,10000,random}; clock values up to and far beyond 2^32 ms; also through automata_tick's block-timeout path for r <= 200, and whole enumeration rounds (Discovers from up to four mappers, Hellos heard, Resets, ticks, clock advances) through the transcribed Darwin frame flow where every block end is judged against the Hellos heard since the previous one. Thorough (-O2 build): EVERY r in [0, 2^32) x begun x prior in {45, 10000}. "
              "non-trivial = r > 0 and begun (the formula branch); distinct = (r, begun, prior)";
    bool ok = true;
#ifdef FLAVOUR_O2
    // exhaustive sweep (thorough tier only)
    {
        World w;
        void *en = br_init_enumeration();
        void *band = br_aut_extra(en);
        uint64_t lo = ((uint64_t)1 << 32) * a.shard / a.nshards, hi = ((uint64_t)1 << 32) * (a.shard + 1) / a.nshards;
        uint64_t evals = 0, nontriv = 0;
        for (int begun = 0; begun < 2 && ok; begun++)
            for (uint64_t prior : {(uint64_t)45, (uint64_t)10000}) {
                uint64_t max_ni = 0, max_iv = 0;
                for (uint64_t r = lo; r < hi && ok; r++) {
                    uint64_t ni, iv;
                    std::string e = step(band, r, begun, prior, 5000, &ni, &iv);
                    evals++;
                    if (begun && r > 0) {
                        nontriv++;
                        if (ni < max_ni || iv < max_iv) e = fmt("not monotone along the sweep at r=%llu: Ni=%llu (running max %llu), interval %llu (running max %llu)", (unsigned long long)r, (unsigned long long)ni, (unsigned long long)max_ni, (unsigned long long)iv, (unsigned long long)max_iv);
                        max_ni = std::max(max_ni, ni); max_iv = std::max(max_iv, iv);
                    }
                    if (!e.empty()) {
                        Case c; c.cfg = {(int64_t)r, begun, (int64_t)prior, 5000, 1};
                        write_file(a.failing, "# flavour=o2\n# c13-exhaustive: " + e + "\n" + c.to_text());
                        fprintf(stderr, "FAIL part=c13-exhaustive %s\n", e.c_str());
                        ok = false;
                    }
                }
            }
        br_automata_destroy(en);
        ev.evaluations += evals;
        ev.count("c13-exhaustive:evaluations", evals);
        ev.count("c13-exhaustive:formula-branch", nontriv);
        ev.exhaustive = true;
        for (uint64_t r : {lo + 1, hi - 1}) { uint64_t k = r; ev.note(fnv(&k, 8), true, [&] { return fmt("exhaustive shard [%llu, %llu) x begun{0,1} x prior{45,10000}; e.g. r=%llu", (unsigned long long)lo, (unsigned long long)hi, (unsigned long long)r); }); }
    }
#else
    if (NMAX != 10000 || ALPHA != 45 || BETA != 2 || GAMMA != 10 || TXC != 4) {
        Case c; c.cfg = {0, 0, 45, 1000, 0};
        write_file(a.failing, fmt("# RepeatBand constants differ from the documented ones: NMAX=%ld ALPHA=%ld BETA=%ld GAMMA=%ld TXC=%ld\n", NMAX, ALPHA, BETA, GAMMA, TXC) + c.to_text());
        fprintf(stderr, "FAIL part=c13-constants\n");
        // the formula oracle below uses the documented values, so any deviation shows up as a violation there as well
    }
    std::vector<uint64_t> rs;
    for (uint64_t r = 0; r <= 70000; r++) rs.push_back(r);
    for (int k = 1; k < 32; k++) for (int d = -1; d <= 1; d++) rs.push_back((((uint64_t)1 << k) + d) & 0xFFFFFFFFu);
    for (uint64_t j = 1; j < 65536; j += 257) for (int d = -1; d <= 1; d++) rs.push_back((j * 65536 + d) & 0xFFFFFFFFu);
    for (uint64_t j = 1; j < 65536; j += 2) rs.push_back(j << 16);
    rs.push_back(0xFFFFFFFFu); rs.push_back(0xFFFFFFFEu);
    for (uint64_t j : {1u, 2u, 3u, 255u, 256u, 0x7FFFu, 0x8000u, 0xFFFFu}) for (uint64_t x = 1; x <= 16; x++) rs.push_back((j << 16) + x);   // j * 2^16 + a small count
    uint64_t x = a.seed * 0x9E3779B97F4A7C15ULL + 7;
    for (int i = 0; i < 100000; i++) { x ^= x << 13; x ^= x >> 7; x ^= x << 17; rs.push_back(x & 0xFFFFFFFFu); }
    std::vector<uint64_t> priors = {45, 46, 9999, 10000, 45 + (a.seed * 7919) % 9955};
    for (size_t i = a.shard; i < rs.size() && ok; i += a.nshards)
        for (int begun = 0; begun < 2 && ok; begun++)
            ok = one(a, ev, rs[i], begun, priors[(i / a.nshards + begun) % priors.size()], "c13-sample");
    // through automata_tick's block-timeout path (mode 1) and with the Hello deadline due in the same tick (mode 2)
    for (uint64_t rr = a.shard; rr <= 401 && ok; rr += a.nshards) {
        static const int64_t tlates[] = {0, 0, 1, 60, 200, 299, 1000};
        Case c; c.cfg = {(int64_t)(rr % 201), 0, 0, 10300, 0, rr > 200 ? 2 : 1, tlates[rr % 7]};
        CurrentScope scope(c);
        Verdict v = run(c);
        ev.note(c.digest(), v.nontrivial && v.ok, [&] { return c.to_text(); });
        ev.count("c13-tick-path:cases");
        for (auto &k : v.classes) ev.count("c13-tick-path:" + k);
        if (!v.ok) { write_file(a.failing, "# c13-tick-path: " + v.why + "\n" + c.to_text()); fprintf(stderr, "FAIL part=c13-tick-path %s\n", v.why.c_str()); ok = false; }
    }
    if (ok) {
        auto gen = rc::gen::exec([] {
            Case c; c.cfg = {0, 0, 0, 0, 0, 3, 0, *gx::pick({10000, 10000, 123456, 4294967296LL - 3000, 4294967296LL + 77, 1LL << 40})};
            int n = *gx::range<int>(3, 70);
            c.ops = *rc::gen::resize(n, rc::gen::container<std::vector<Op>>(rc::gen::exec([] {
                Op o;
                int k = *gx::range<int>(0, 99);
                if (k < 18) { o.kind = 1; o.a = {*gx::range<int64_t>(0, 3), *gx::pick({0, 0, 1}), *gx::pick({1, 1, 2, 0}), *gx::range<int64_t>(1, 3)}; }
                else if (k < 45) { o.kind = 2; o.a = {*gx::pick({1, 1, 1, 2, 3, 9, 10, 11, 15, 40})}; }
                else if (k < 70) o.kind = 3;
                else if (k < 90) { o.kind = 4; o.a = {*gx::pick({0, 1, 50, 100, 150, 299, 300, 301, 400, 700, 1000, 1500, 5000, 31000, 61000})}; }
                else if (k < 94) { o.kind = 5; o.a = {*gx::range<int64_t>(0, 3)}; }
                else { o.kind = 6; o.a = {*gx::range<int64_t>(0, 3), *gx::pick({2, 2, 2, 6, 9, 4, 11})}; }
                return o;
            })));
            return c;
        });
        ok = run_cases(a, ev, "c13-rounds", a.n(160000, 1000000), 100, gen, run);
    }
#endif
    ev.write(a.out);
    return ok ? 0 : 1;
}
