// C15 — The session automaton follows the LLTD session life-cycle.
#include "rcx.hpp"

// states: 0 Temporary, 1 Nascent, 2 Pending, 3 Complete; events: 0 conflicting, 1 reset, 2 noack, 3 acking, 4 noack-changed, 5 acking-changed, 6 topology reset, 7 hello
static int table_next(int st, int e) {
    switch (st) {
        case 1: return e == 0 ? 0 : e == 2 ? 2 : e == 3 ? 3 : 1;
        case 2: return (e == 3 || e == 5) ? 3 : e == 1 ? 1 : 2;
        case 3: return e == 4 ? 2 : e == 1 ? 1 : 3;
        case 0: return (e == 1 || e == 7 || e == 6) ? 1 : 0;
    }
    return st;
}
static const char *NAME[] = {"Temporary", "Nascent", "Pending", "Complete"};

static bool drive(void *a, int st) {
    if (st == 0) br_switch_session(a, 0);
    if (st == 2) br_switch_session(a, 2);
    if (st == 3) br_switch_session(a, 3);
    return br_aut_state(a) == st;
}

// part 0 cfg: [0]=0 [1] state [2] event [3] elapsed s ; part 1: ops kind 1 event(a: e), 2 advance (a: s)
static Verdict run(const Case &c) {
    Verdict v;
    World w;
    br_set_log_tag_null(c.c(5) != 0);                       // cfg[5]: the switch function is handed NULL as its log tag (allowed) instead of a text
    if (c.c(6) > 0) vp_fill_pattern(-(int)c.c(6));          // cfg[6]: fresh memory looks like stale small records (rows the constructor does not write must not matter)
    const uint64_t base0 = c.c(4) == 1 ? 0 : c.c(4) == 2 ? 500 : 100000;   // cfg[4]: the clock at the start (1, 2: within the first second after start-up, where the seconds clock reads 0)
    vp_set_now_ms(base0);
    void *a = br_init_session();
    if (c.c(0) == 0) {
        int st = (int)(c.c(1) & 3), e = (int)(c.c(2) & 7);
        uint64_t el = (uint64_t)std::max<int64_t>(0, c.c(3));
        if (br_aut_state(a) != 1) v.fail(fmt("fresh session automaton is in state %d, expected Nascent", br_aut_state(a)));
        else if (!drive(a, st)) v.fail(fmt("legal events did not drive a fresh automaton into %s (is %d)", NAME[st], br_aut_state(a)));
        if (v.ok) {
            int t = br_aut_timeout(a, st);
            vp_set_now_ms(base0 + el * 1000);
            int got = br_switch_session(a, e);
            bool timed_out = t != 0 && (int64_t)el > t;
            if (timed_out) {
                if (!(got == 1 || got == table_next(1, e))) v.fail(fmt("%s idle for %llu s (timeout %d s), event %d: went to %d, expected Nascent or what the event does from Nascent (%d)", NAME[st], (unsigned long long)el, t, e, got, table_next(1, e)));
            } else if (got != table_next(st, e)) v.fail(fmt("%s + event %d after %llu s (timeout %d s): went to %s, expected %s", NAME[st], e, (unsigned long long)el, t, got >= 0 && got < 4 ? NAME[got] : "?", NAME[table_next(st, e)]));
            v.nontrivial = timed_out || table_next(st, e) != st || (int64_t)el == t || (int64_t)el == t + 1;
            v.cls(timed_out ? "timeout-cell" : table_next(st, e) != st ? "state-changing-cell" : "unchanged-cell");
        }
    } else {
        uint64_t now = 100, last = 100;
        int st = 1, changes = 0, timeouts = 0;
        int tm1[4]; for (int s0 = 0; s0 < 4; s0++) tm1[s0] = br_aut_timeout(a, s0);   // read once, from the fresh automaton
        for (size_t i = 0; i < c.ops.size() && v.ok; i++) {
            const Op &op = c.ops[i];
            if (op.kind == 2) { now += (uint64_t)std::max<int64_t>(0, std::min<int64_t>(op.arg(0), 100)); vp_set_now_ms(now * 1000); continue; }
            if (op.kind != 1) continue;
            int e = (int)(op.arg(0) & 7), t = tm1[st];
            int got = br_switch_session(a, e);
            if (t != 0 && (int64_t)(now - last) > t) {
                timeouts++;
                if (!(got == 1 || got == table_next(1, e))) v.fail(fmt("step %zu: %s idle %llu s, event %d: state %d", i, NAME[st], (unsigned long long)(now - last), e, got));
            } else if (got != table_next(st, e)) v.fail(fmt("step %zu: %s + event %d: went to %d, expected %s", i, NAME[st], e, got, NAME[table_next(st, e)]));
            if (got != st) changes++;
            st = got; last = now;
            if (st < 0 || st > 3) { v.fail("state outside 0..3"); break; }
        }
        v.nontrivial = changes >= 2;
        if (timeouts) v.cls("has-timeout");
    }
    br_automata_destroy(a);
    br_set_log_tag_null(0);
    return v;
}

// part 2: several session automata side by side (the daemons keep one per interface), created and replaced at arbitrary moments, on a
// millisecond clock. ops: 1 event (a: event, automaton) ; 2 advance (a: ms) ; 3 replace automaton (a: automaton) by a fresh one.
// Timing rule on the millisecond clock (the automaton reads whole seconds): idle for <= t s must not count as expired, idle for
// >= t+1 s must, in between either is right.
static Verdict run_multi(const Case &c) {
    Verdict v;
    World w;
    br_set_log_tag_null(c.c(5) != 0);
    if (c.c(6) > 0) vp_fill_pattern(-(int)c.c(6));
    uint64_t now = (c.c(4) ? 0 : 100000) + (uint64_t)(c.c(2) % 1000);   // cfg[4]: the history starts within the first second of the clock
    vp_set_now_ms(now);
    int k = (int)std::max<int64_t>(1, std::min<int64_t>(c.c(1, 2), 3));
    void *mp = c.c(3) ? br_init_mapping() : nullptr;   // cfg[3]: a mapping engine of the same daemon lives (and is replaced) next to the session automata; ops 4 (input) and 5 (replace)
    int mp_inputs = 0;
    void *a[3] = {nullptr, nullptr, nullptr};
    int st[3]; uint64_t last[3];
    for (int i = 0; i < k; i++) { a[i] = br_init_session(); st[i] = 1; last[i] = now; }
    int tm0[4];   // the timeouts of a freshly built automaton: they are part of the table, not something a history may change
    for (int s0 = 0; s0 < 4; s0++) tm0[s0] = br_aut_timeout(a[0], s0);
    int changes = 0, timeouts = 0, others_active = 0, replaced = 0;
    for (size_t i = 0; i < c.ops.size() && v.ok; i++) {
        const Op &op = c.ops[i];
        if (op.kind == 2) { now += (uint64_t)std::max<int64_t>(0, std::min<int64_t>(op.arg(0), 100000)); vp_set_now_ms(now); continue; }
        if (op.kind == 4) { if (mp) { br_switch_mapping(mp, (int)op.arg(0)); mp_inputs++; } continue; }
        if (op.kind == 5) { if (mp) { br_switch_mapping(mp, 0); br_automata_destroy(mp); mp = (op.arg(0) & 1) ? br_init_mapping() : nullptr; if (!mp) { mp = nullptr; } } else mp = br_init_mapping(); continue; }
        int x = (int)(((op.kind == 3 ? op.arg(0) : op.arg(1)) % k + k) % k);
        if (op.kind == 3) {
            void *fresh = br_init_session();   // built while the old one still exists (and possibly in memory a mapping engine has just given back)
            br_automata_destroy(a[x]);
            a[x] = fresh;
            for (int j = 0; j < k; j++) if (j != x && st[j] != 1) others_active++;
            if (br_aut_state(a[x]) != 1) v.fail(fmt("step %zu: a session automaton created while %d other(s) exist is born in state %d, expected Nascent", i, k - 1, br_aut_state(a[x])));
            st[x] = 1; last[x] = now; replaced++;
            continue;
        }
        if (op.kind != 1) continue;
        int e = (int)(op.arg(0) & 7), t = tm0[st[x]];
        uint64_t el = now - last[x];
        int got = br_switch_session(a[x], e);
        bool must_expire = t != 0 && el >= (uint64_t)(t + 1) * 1000, may_expire = t != 0 && el > (uint64_t)t * 1000;
        bool ok_plain = got == table_next(st[x], e), ok_expired = got == 1 || got == table_next(1, e);
        if (must_expire ? !ok_expired : may_expire ? !(ok_plain || ok_expired) : !ok_plain)
            v.fail(fmt("step %zu: automaton %d of %d in %s, idle %llu ms (timeout %d s), event %d: went to %d, expected %s%s", i, x, k, NAME[st[x]], (unsigned long long)el, t, e, got,
                       must_expire ? "Nascent (expired)" : NAME[table_next(st[x], e)], may_expire && !must_expire ? " or Nascent (expired)" : ""));
        if (must_expire) timeouts++;
        if (got != st[x]) changes++;
        st[x] = got; last[x] = now;
        if (got < 0 || got > 3) { v.fail("state outside 0..3"); break; }
        for (int j = 0; j < k && v.ok; j++)
            if (j != x && br_aut_state(a[j]) != st[j]) v.fail(fmt("step %zu: an event for automaton %d moved automaton %d from %s to %d", i, x, j, NAME[st[j]], br_aut_state(a[j])));
    }
    for (int i = 0; i < k; i++) br_automata_destroy(a[i]);
    if (mp) br_automata_destroy(mp);
    br_set_log_tag_null(0);
    if (mp_inputs) v.cls("mapping-engine-active-alongside");
    v.nontrivial = changes >= 2 && k >= 2;
    if (timeouts) v.cls("has-timeout");
    if (replaced && others_active) v.cls("automaton-created-while-another-is-active");
    v.cls(fmt("automata=%d", k));
    return v;
}
static Verdict run_any(const Case &c) { return c.c(0) == 2 ? run_multi(c) : run(c); }

int main(int argc, char **argv) {
    Args a = parse_args(argc, argv);
    if (!a.replay.empty()) return replay_case(a, run_any);
    zygote_start(run_any);   // before any code under test runs in this process
    Current::install(a.failing);
    Evidence ev;
    ev.rule = "(1) exhaustive: 4 states x session events 0..7 x elapsed {0, t-1, t, t+1, 10t} s, from a fresh automaton driven into the start state by legal events, judged by the life-cycle table of the statement "
              "(after a timeout both 'Nascent' and 'event applied from Nascent' are accepted). (2) random event/clock histories compared step by step. "
              "(3) one to three automata side by side on a millisecond clock, replaced by fresh ones at arbitrary moments: each follows the table on its own events only, a new one is born Nascent "
              "(idle <= t s must not expire, >= t+1 s must, in between either). "
              "non-trivial = cell whose expected state differs from the start state or a timeout-boundary cell; histories: >= 2 state changes; distinct = digest of the case";
    bool ok = true;
    {
        World w0; vp_set_now_ms(1000);
        void *a0 = br_init_session();
        int tm[4]; for (int s = 0; s < 4; s++) tm[s] = br_aut_timeout(a0, s);
        br_automata_destroy(a0);
        for (int st = 0; st < 4 && ok; st++)
            for (int e = 0; e < 8 && ok; e++) {
                std::set<int64_t> els = {0, std::max(0, tm[st] - 1), tm[st], tm[st] + 1, 10 * (int64_t)tm[st], 32767, 32768, 65535, 65536, 65537, 2147483647LL, 2147483648LL, 4294967296LL};
                for (int64_t el : els) {
                    if (a.shard != 0) continue;   // 160 cells: one shard does them all
                    for (int64_t base : {0, 1, 2}) {
                    Case c; c.cfg = {0, st, e, el, base, (st + e + (int)base) & 1, (int64_t)((st * 8 + e + base * 32 + (el % 5) * 96) % 128 + (base ? 1 : 0))};
                    CurrentScope scope(c);
                    Verdict v = run(c);
                    ev.note(c.digest(), v.nontrivial && v.ok, [&] { return c.to_text(); });
                    for (auto &x : v.classes) ev.count("c15-cells:" + x);
                    if (!v.ok) { write_file(a.failing, "# c15-cells: " + v.why + "\n" + c.to_text()); fprintf(stderr, "FAIL part=c15-cells %s\n", v.why.c_str()); ok = false; break; }
                    }
                    if (!ok) break;
                }
            }
        ev.extra["cells_exhaustive"] = "true";
    }
    if (ok) {
        auto gen = rc::gen::exec([] {
            Case c; c.cfg = {1, 0, 0, 0, 0, *gx::pick({0, 0, 1}), *gx::pick({0, 0, 1, 17, 33, 64, 90, 127})};
            int n = *gx::range<int>(1, 40);
            c.ops = *rc::gen::resize(n, rc::gen::container<std::vector<Op>>(rc::gen::exec([] {
                Op o;
                if (*gx::chance(75)) { o.kind = 1; o.a = {*gx::range<int64_t>(0, 7)}; }
                else { o.kind = 2; o.a = {*gx::pick({0, 0, 1, 1, 2, 3, 10})}; }
                return o;
            })));
            return c;
        });
        ok = run_cases(a, ev, "c15-histories", a.n(100000, 2000000), 100, gen, run);
    }
    if (ok) {
        auto gen = rc::gen::exec([] {
            Case c; c.cfg = {2, *gx::range<int64_t>(1, 3), *gx::range<int64_t>(0, 999), *gx::pick({0, 1, 1}), *gx::pick({0, 0, 0, 1}), *gx::pick({0, 0, 1}), *gx::pick({0, 0, 1, 9, 33, 64, 90, 127})};
            int n = *gx::range<int>(1, 50);
            c.ops = *rc::gen::resize(n, rc::gen::container<std::vector<Op>>(rc::gen::exec([] {
                Op o;
                int r = *gx::range<int>(0, 99);
                int k = r < 58 ? 1 : r < 78 ? 2 : r < 86 ? 3 : r < 96 ? 4 : 5;
                o.kind = k;
                if (k == 1) o.a = {*gx::range<int64_t>(0, 7), *gx::range<int64_t>(0, 2)};
                else if (k == 2) o.a = {*gx::pick({0, 1, 100, 200, 500, 900, 999, 1000, 1001, 1100, 1900, 2000, 2100, 3000, 30000, 31000, 61000})};
                else if (k == 3) o.a = {*gx::range<int64_t>(0, 2)};
                else if (k == 4) o.a = {*gx::pick({0, 0, 2, 8, -3, 4, 9})};
                else o.a = {*gx::pick({0, 1, 1})};
                return o;
            })));
            return c;
        });
        ok = run_cases(a, ev, "c15-several-automata", a.n(200000, 2000000), 100, gen, run_any);
    }
    ev.write(a.out);
    return ok ? 0 : 1;
}
