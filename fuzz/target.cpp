// libFuzzer structure-aware target for C01 (thorough tier). The input bytes are decoded into the same
// Case representation the rapidcheck runner uses; exec_c01() carries the oracles (sanitizers, ledger).
//   C01_CASE_OUT=<path>  write the decoded case (text) to <path> before executing (artifact -> replay file)
#include <fuzzer/FuzzedDataProvider.h>
#include <unistd.h>

#include "../harness/c01_exec.hpp"

static Case decode(const uint8_t *data, size_t size) {
    FuzzedDataProvider fdp(data, size);
    Case c;
    static const int64_t mtus[] = {576, 576, 577, 1500, 1500, 1514, 9000, 9216};
    int64_t mtu = fdp.ConsumeBool() ? mtus[fdp.ConsumeIntegralInRange<int>(0, 7)] : fdp.ConsumeIntegralInRange<int>(576, 9216);
    int64_t own = 0x020000000000LL | fdp.ConsumeIntegralInRange<int>(1, 0xFFFFFF);
    c.cfg = {mtu, fdp.ConsumeIntegralInRange<int>(0, 1), own, fdp.ConsumeIntegralInRange<int>(0, 1)};
    auto blob = [&](size_t maxn) { size_t n = fdp.ConsumeIntegralInRange<size_t>(0, maxn); auto s = fdp.ConsumeBytes<uint8_t>(n); return s; };
    c.blobs = {blob(40), blob(40), blob(300), blob(1100), blob(64)};
    Mac ownm = mac_from_u64((uint64_t)own);
    int n = fdp.ConsumeIntegralInRange<int>(0, 64);
    static const int counts[] = {0, 1, 2, 3, 4, 5, 6, 6};
    static const int seqs[] = {0, 1, 0xFFFF};
    static const int qtypes[] = {0x0E, 0x11, 0x13, 0x12, 0x00, 0xFF};
    static const int qoffs[] = {0, 1, 541, 542, 543, 0xFFFF};
    for (int i = 0; i < n && fdp.remaining_bytes() > 0; i++) {
        Op o;
        int k = fdp.ConsumeIntegralInRange<int>(0, 14);
        if (k == 14) { static const int ty[] = {0x0E, 0x11, 0x13}; o.kind = 14; o.a = {ty[fdp.ConsumeIntegralInRange<int>(0, 2)], fdp.ConsumeIntegralInRange<int>(1, 0xFFFF), fdp.ConsumeIntegralInRange<int>(0, 3)}; c.ops.push_back(o); continue; }
        if (k == 13) { o.kind = 13; o.a = {fdp.ConsumeIntegralInRange<int>(1, 40), fdp.ConsumeIntegralInRange<int>(0, 0xFFFF), fdp.ConsumeIntegralInRange<int>(0, 1)}; c.ops.push_back(o); continue; }
        if (k == 12) { o.kind = 12; o.a = {fdp.ConsumeIntegralInRange<int>(0, 1200), fdp.ConsumeIntegralInRange<int>(0, 1000), fdp.ConsumeIntegralInRange<int>(0, 1), fdp.ConsumeIntegralInRange<int>(1, 48)}; c.ops.push_back(o); continue; }
        if (k == 0) { o.kind = 10; c.ops.push_back(o); continue; }
        if (k == 1) { o.kind = 11; o.a = {fdp.ConsumeIntegralInRange<int>(0, 120000)}; c.ops.push_back(o); continue; }
        FrameT t;
        t.tmpl = fdp.ConsumeIntegralInRange<int>(0, 8);
        t.tos = fdp.ConsumeBool() ? fdp.ConsumeIntegralInRange<int>(0, 1) : fdp.ConsumeIntegralInRange<int>(0, 255);
        t.opcode = fdp.ConsumeBool() ? fdp.ConsumeIntegralInRange<int>(0, 12) : fdp.ConsumeIntegralInRange<int>(0, 255);
        t.st = fdp.ConsumeIntegralInRange<int>(0, 3);
        t.bridged = fdp.ConsumeBool();
        t.dst = fdp.ConsumeIntegralInRange<int>(0, 2);
        t.seq = fdp.ConsumeBool() ? seqs[fdp.ConsumeIntegralInRange<int>(0, 2)] : fdp.ConsumeIntegralInRange<int>(0, 0xFFFF);
        t.count_class = counts[fdp.ConsumeIntegralInRange<int>(0, 7)];
        t.count_any = fdp.ConsumeIntegralInRange<int>(0, 0xFFFF);
        t.carried = fdp.ConsumeIntegralInRange<int>(0, 40);
        t.qtype = fdp.ConsumeBool() ? qtypes[fdp.ConsumeIntegralInRange<int>(0, 5)] : fdp.ConsumeIntegralInRange<int>(0, 255);
        t.qoff = fdp.ConsumeBool() ? qoffs[fdp.ConsumeIntegralInRange<int>(0, 5)] : fdp.ConsumeIntegralInRange<int>(0, 0xFFFF);
        t.gen = fdp.ConsumeIntegralInRange<int>(0, 0xFFFF);
        t.trunc = fdp.ConsumeBool() ? -1 : fdp.ConsumeIntegralInRange<int>(0, 9216);
        t.pad_to_mtu = fdp.ConsumeIntegralInRange<int>(0, 3) == 0;
        int nm = fdp.ConsumeIntegralInRange<int>(0, 3);
        for (int j = 0; j < nm; j++) t.mut.push_back({fdp.ConsumeIntegralInRange<int>(0, 9215), fdp.ConsumeIntegralInRange<int>(0, 255)});
        if (t.tmpl == 8) t.raw = blob(128);
        { static const int ets[] = {-1, -1, -1, -1, -1, -1, 0x8100, 0x88A8, 0x0800, 0xD988, 0x0000};
          int x = fdp.ConsumeIntegralInRange<int>(0, 54);   // one byte: ethertype selector (0..10) and filler mode (x / 11)
          t.ethertype = ets[x % 11]; t.pad_fill = (x / 11) % 5; }
        o.kind = 9;
        o.blob = c01_frame((size_t)mtu, ownm, t);
        c.ops.push_back(o);
    }
    return c;
}

static uint64_t g_execs = 0, g_nontrivial = 0, g_deep_frames = 0;
static std::unordered_set<uint64_t> *g_digests;
static std::string g_stats_path;
static void dump_stats() {
    if (g_stats_path.empty()) return;
    FILE *f = fopen(g_stats_path.c_str(), "w");
    if (!f) return;
    fprintf(f, "{\"execs\": %" PRIu64 ", \"nontrivial\": %" PRIu64 ", \"distinct_nontrivial\": %zu, \"deep_frames\": %" PRIu64 "}\n",
            g_execs, g_nontrivial, g_digests ? g_digests->size() : 0, g_deep_frames);
    fclose(f);
}

extern "C" int LLVMFuzzerInitialize(int *, char ***) {
    g_digests = new std::unordered_set<uint64_t>();
    const char *st = getenv("C01_STATS");
    if (st) { g_stats_path = fmt("%s.%d.json", st, (int)getpid()); atexit(dump_stats); }
    const char *fc = getenv("C01_FAILING");
    Current::install(fc ? fmt("%s.%d.case", fc, (int)getpid()) : std::string());
    vp_log_format_check(1);
    return 0;
}

extern "C" int LLVMFuzzerTestOneInput(const uint8_t *data, size_t size) {
    Case c = decode(data, size);
    if (const char *out = getenv("C01_CASE_OUT")) write_file(out, c.to_text());
    CurrentScope scope(c);
    C01Stats s = exec_c01(c);
    g_execs++;
    if (s.deep > 0 && s.port_calls > 0) { g_nontrivial++; if (g_digests->size() < 2000000) g_digests->insert(c.digest()); }
    g_deep_frames += (uint64_t)s.deep;
    if ((g_execs & 0x3FFF) == 0) dump_stats();
    if (!s.fail.empty()) {
        fprintf(stderr, "C01 ORACLE FAILURE: %s\n", s.fail.c_str());
        dump_stats();
        Current::on_death();
        __builtin_trap();
    }
    return 0;
}
