"""Sensitivity self-test: apply each mutants/*.patch (and seeded/*/patch.diff) to a scratch worktree of /repo HEAD,
run the quick tier of the properties it is expected to break, and record whether a VIOLATION was reported.
Nothing is written to /verif/evidence or /verif/replays; the worktree is removed afterwards."""
import concurrent.futures as cf, glob, json, os, re, subprocess, sys, tempfile, time

V = os.path.dirname(os.path.abspath(__file__))


def expected_props(patch):
    idx = json.load(open(os.path.join(V, "mutants", "INDEX.json"))) if os.path.exists(os.path.join(V, "mutants", "INDEX.json")) else {}
    name = os.path.basename(patch)
    if name in idx:
        return idx[name]
    if os.path.basename(os.path.dirname(patch)) and os.path.exists(os.path.join(os.path.dirname(patch), "meta.json")):
        return json.load(open(os.path.join(os.path.dirname(patch), "meta.json"))).get("properties", [])
    m = re.match(r"m(\d+)", name)
    return ["C%s" % m.group(1)] if m else []


def run_one(patch, props, tier="quick"):
    wt = tempfile.mkdtemp(prefix="lltd-mut.", dir="/tmp")
    os.rmdir(wt)
    out = {"patch": os.path.relpath(patch, V), "results": {}}
    r = subprocess.run(["git", "-C", "/repo", "worktree", "add", "-q", "--detach", wt, "HEAD"], capture_output=True, text=True)
    if r.returncode:
        out["error"] = r.stderr
        return out
    try:
        r = subprocess.run(["git", "-C", wt, "apply", os.path.abspath(patch)], capture_output=True, text=True)
        if r.returncode:
            out["error"] = "patch does not apply: " + r.stderr
            return out
        env = dict(os.environ, VERIF_REPO=wt, VERIF_BUILD=os.path.join(wt, ".vbuild"), VERIF_OUT=os.path.join(wt, ".vout"))
        for p in props:
            t0 = time.time()
            r = subprocess.run([os.path.join(V, "check"), p, "--tier", tier], capture_output=True, text=True, env=env, cwd=V)
            viol = [l for l in r.stdout.splitlines() if l.startswith("VIOLATION")]
            why = [l.strip() for l in r.stdout.splitlines() if l.startswith("  ")][:1]
            out["results"][p] = {"exit": r.returncode, "detected": r.returncode == 1 and bool(viol), "seconds": round(time.time() - t0, 1), "why": why[0][:200] if why else ""}
            if r.returncode not in (0, 1):
                out["results"][p]["output_tail"] = r.stdout[-1500:]
    finally:
        subprocess.run(["git", "-C", "/repo", "worktree", "remove", "--force", wt], capture_output=True)
        subprocess.run(["git", "-C", "/repo", "worktree", "prune"], capture_output=True)
    return out


def main(argv):
    only = [a for a in argv if not a.startswith("--")]
    patches = sorted(glob.glob(os.path.join(V, "mutants", "*.patch"))) + sorted(glob.glob(os.path.join(V, "seeded", "*", "patch.diff")))
    jobs = []
    for p in patches:
        props = expected_props(p)
        if only:
            by_prop = [o for o in only if re.fullmatch(r"C\d+", o)]
            by_name = [o for o in only if o not in by_prop]
            if by_name and not any(o in p for o in by_name):
                continue
            if by_prop and not by_name:
                props = [x for x in props if x in by_prop]
        if props:
            jobs.append((p, props))
    # behaviour-preserving refactorings (refactors/*.patch): every named check must stay green (no alarm, no harness error)
    refjobs = []
    for p in sorted(glob.glob(os.path.join(V, "refactors", "*.patch"))):
        if only and not any(o in p for o in only) and not any(o == "refactors" for o in only):
            continue
        refjobs.append((p, ["C01", "C02", "C08", "C09", "C17", "C19"]))
    res = []
    with cf.ThreadPoolExecutor(int(os.environ.get("SELFTEST_JOBS", "3"))) as ex:
        for o in ex.map(lambda j: run_one(*j), jobs):
            res.append(o)
            for p, r in o.get("results", {}).items():
                print("%-55s %s %-9s %5.1fs  %s" % (o["patch"], p, "DETECTED" if r["detected"] else "missed(exit %d)" % r["exit"], r["seconds"], r["why"][:110]))
            if "error" in o:
                print("%-55s ERROR %s" % (o["patch"], o["error"][:200]))
    ref_bad = 0
    with cf.ThreadPoolExecutor(2) as ex:
        for o in ex.map(lambda j: run_one(*j), refjobs):
            o["expect"] = "green"
            res.append(o)
            for p, r in o.get("results", {}).items():
                okk = r["exit"] == 0
                ref_bad += 0 if okk else 1
                print("%-55s %s %-9s %5.1fs" % (o["patch"], p, "green" if okk else "ALARM(exit %d)" % r["exit"], r["seconds"]))
    old = []
    rp = os.environ.get("SELFTEST_RESULTS", os.path.join(V, "mutants", "RESULTS.json"))
    if only and os.path.exists(rp):   # partial run: merge into the stored results
        old = [o for o in json.load(open(rp)) if o["patch"] not in {x["patch"] for x in res}]
    json.dump(old + res, open(rp, "w"), indent=1)
    if ref_bad:
        print("selftest: %d alarm(s) on behaviour-preserving refactorings" % ref_bad)
        return 1
    missed = [o["patch"] for o in res if o.get("expect") != "green" and (any(not r["detected"] for r in o.get("results", {}).values()) or "error" in o)]
    print("selftest: %d patches, %d with a miss" % (len(res), len(missed)))
    return 0 if not missed else 1
